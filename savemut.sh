#!/bin/bash
# usage: savemut.sh <agent worktree> <seeded name> <demo pkg dir> <prop>...
# Confirms the delivered change in its scratch worktree, stores it under /verif/seeded/<name>, runs the given checks against it.
set -u
W="$1"; NAME="$2"; PKG="$3"; shift 3
D=/verif/seeded/$NAME
mkdir -p "$D"
conf=$(/verif/confirm_mut.sh "$W" "$PKG" 2>&1 | tail -2)
echo "$conf"
cp "$W/_seeded/patch.diff" "$D/patch.diff"; cp "$W/_seeded/demo_test.go" "$D/demo_test.go"; cp "$W/_seeded/notes.md" "$D/notes.md" 2>/dev/null
res=$(/verif/mutcheck.sh "$D/patch.diff" "$@" 2>&1)
echo "$res" | grep -v "^   \|^   tiny" | cut -c1-300
python3 - "$D" "$NAME" "$PKG" "$conf" "$res" "$@" <<'PY'
import sys, json, re
d, name, pkg, conf, res = sys.argv[1:6]
props = sys.argv[6:]
checks = {}
for m in re.finditer(r'^== (C\d+) rc=(\d+) (.*)$', res, re.M):
    checks[m.group(1)] = {"exit_code": int(m.group(2)), "summary": m.group(3)}
kinds = re.findall(r'kind=(\S+)', res)
meta = {
  "name": name,
  "breaks_property": props[0] if props else None,
  "demo": {"file": "demo_test.go", "copy_into": pkg, "run": f"cp demo_test.go <repo>/{pkg}/zz_seeded_demo_test.go && go test -vet=off -count=1 -run TestSeededDemo ./{pkg}/"},
  "confirmed_in_scratch_worktree": conf.strip().endswith("CONFIRMED") and "NOT-CONFIRMED" not in conf,
  "confirmation": conf,
  "needs_to_manifest": "see notes.md",
  "checks_run": checks,
  "violation_kinds_seen": sorted(set(kinds)),
  "caught": any(v["exit_code"] == 1 for v in checks.values()),
  "how_run": "mutcheck.sh: git -C /repo apply patch.diff; existing suite (default + tiny); bin/verif check <prop> (quick tier, seed 1); git -C /repo checkout -- .",
}
json.dump(meta, open(d + "/meta.json", "w"), indent=1)
print("saved", d, "caught =", meta["caught"])
PY
