#!/usr/bin/env python3
"""Regenerates MANIFEST.json from the table below (kept in one place so it stays valid)."""
import json, subprocess

hook_commits = subprocess.run(["git", "-C", "/repo", "log", "--format=%H %s"], capture_output=True, text=True).stdout.splitlines()
hook_commits = [l.split()[0] for l in hook_commits if " verif hooks" in l]

CHECKS = {
 "C01": ("exploration", "4 C01", "reference-model oracle after every op + hooked structural invariants + checkptr/ASan builds, random histories",
         "Held on the executions observed: every alive entity's Has/Mask/Ids/Get and component bytes equal the model after every op of thousands of hostile histories, via World.* and via a full query sweep, in the default and tiny builds and under checkptr (ASan in thorough).",
         "Trusts the harness model (200 lines) and the unique-byte-pattern encoding; populations <= ~60 entities, <= 12 types in use per history."),
 "C02": ("exploration", "4 C02", "handle ledger checked after every op (trace monitor) + hooked free-list invariant",
         "Held on the executions observed: every handle ever issued in an epoch is asked Alive after every op; freshness, id uniqueness, zero entity and conservation are asserted.",
         "Ledger bounded by history length (<= ~2000 handles); generation wrap-around out of reach."),
 "C03": ("exploration", "4 C03", "four-traversal query oracle against an independent filter evaluator over the reference model",
         "Held on the executions observed: for harness-owned filter expressions the four traversals agree with each other, with the model's evaluator and with World.* at every position; returned queries of Q batch calls included.",
         "Trusts the harness filter evaluator; relation filters are don't-care on entities without a relation component."),
 "C05": ("exploration", "4 C05", "reference-model oracle for targets + per-target relation-filter queries after every op + illegal-target fault injection",
         "Held on the executions observed: Relations.Get/Query.Relation and relation-filter queries for every target ever used agree with the model after every op; dead/recycled targets are rejected by every target-taking entry point exercised.",
         "Trusts the harness model; see C10 for the fault table."),
 "C06": ("exploration", "4 C06", "reference model + hooked invariants (retired tables empty/zeroed, free lists) + per-target queries under target-death workloads",
         "Held on the executions observed: target deaths in all three retirement triggers, self-targets and same-batch parent/children removals never panic, never change bystanders, and reused tables start empty and zeroed.",
         "Hook file is trusted to read the structures correctly."),
 "C07": ("exploration", "4 C07", "differential shadow comparator: registered filter vs original filter after every op, plus hooked cache invariant",
         "Held on the executions observed: every live registration yields the same multiset as its original filter after every op, across target deaths, table recycling and Resets; batch ops through cached filters equal the model.",
         "Compares arche with arche and with the harness model."),
 "C11": ("exploration", "4 C11", "offline trace checker over the recorded listener event stream against the model's per-entity before/after diff",
         "Held on the executions observed: exactly one truthful event per changed entity, none otherwise, with the documented delivery timing; replaying the stream reproduces masks and targets.",
         "Reset and LoadEntities are epoch boundaries (no events are specified for them)."),
}

ALL = ["C%02d" % i for i in range(1, 21)]
checks = []
for pid in ALL:
    if pid not in CHECKS:
        continue
    level, ref, tech, text, note = CHECKS[pid]
    checks.append({
        "property_id": pid,
        "quick_cmd": f"bin/verif check {pid} --tier quick",
        "thorough_cmd": f"bin/verif check {pid} --tier thorough",
        "evidence_file": f"/verif/evidence/{pid}.json",
        "replay_cmd_template": "bin/verif replay {path}",
        "engine": "harness",
        "level_claimed": {"category": level, "text": text, "design_ref": "DESIGN.md section " + ref},
        "level_note": note,
        "technique": tech,
    })
na = [{"property_id": p, "reason": "check under construction in this session; will be claimed once its monitor is built and validated"} for p in ALL if p not in CHECKS]
manifest = {
    "version": 1,
    "setup_cmd": "cd /verif/harness && cp /repo/go.sum . && env GOFLAGS=-mod=mod GOPROXY=off GOSUMDB=off GOTOOLCHAIN=local GOWORK=off go build -o /verif/bin/verif ./cmd/verif && /verif/bin/verif build",
    "hooks": {
        "guard": "verif",
        "enable": "go build -tags verif (file ecs/verif_hooks.go has //go:build verif)",
        "baseline_off_cmd": "cd /repo && env -u GOFLAGS GOPROXY=off GOSUMDB=off GOTOOLCHAIN=local go test -vet=off -count=1 ./...",
        "source_commits": hook_commits,
        "add_only": True,
    },
    "engines": [{"name": "harness", "path": "/verif/harness", "serves_properties": sorted(CHECKS), "kind_free_text": "Go harness: generated hostile workloads on the real library, reference-model / trace / differential monitors, hooked invariants, sanitizer builds; runner cmd/verif fans child processes out over the cores"}],
    "checks": checks,
    "not_applicable": na,
    "notes": "Runtime monitoring and sanitizers only. Verdicts are 'held on the executions observed'. See DESIGN.md.",
}
json.dump(manifest, open("/verif/MANIFEST.json", "w"), indent=1)
print("checks:", len(checks), "not_applicable:", len(na))
