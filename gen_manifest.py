#!/usr/bin/env python3
"""Regenerates MANIFEST.json from the table below (kept in one place so it stays valid)."""
import json, subprocess

hook_commits = subprocess.run(["git", "-C", "/repo", "log", "--format=%H %s"], capture_output=True, text=True).stdout.splitlines()
hook_commits = [l.split()[0] for l in hook_commits if " verif hooks" in l]

CHECKS = {
 "C01": ("exploration", "4 C01", "reference-model oracle after every op + hooked structural invariants + checkptr/ASan builds, random hostile histories",
         "Held on the executions observed: every alive entity's Has/Mask/Ids/Get and component bytes equal the model after every op of thousands of hostile histories, via World.* and via a full query sweep, in the default and tiny builds and under checkptr (ASan in thorough).",
         "Trusts the harness model and the unique-byte-pattern encoding; populations <= ~60 entities, <= 12 types in use per history."),
 "C02": ("exploration", "4 C02", "handle ledger checked after every op (trace monitor) + hooked free-list invariant",
         "Held on the executions observed: every handle ever issued in an epoch is asked Alive after every op; freshness, id uniqueness, zero entity and conservation are asserted.",
         "Ledger bounded by history length; generation wrap-around out of reach."),
 "C03": ("exploration", "4 C03", "four-traversal query oracle against an independent filter evaluator over the reference model",
         "Held on the executions observed: for harness-owned filter expressions the four traversals agree with each other, with the model's evaluator and with World.* at every position; returned queries of Q batch calls included.",
         "Trusts the harness filter evaluator; relation filters are don't-care on entities without a relation component."),
 "C04": ("exploration", "4 C04", "set-model oracle over all ID pairs (enumerated) and sampled masks; harness filter evaluator vs Matches",
         "All 65,536 (4,096) ordered ID pairs are enumerated completely for every mask operation in every tier; general masks and filter expressions are sampled.",
         "Masks beyond the pair structure and filter expressions are sampled, not enumerated."),
 "C05": ("exploration", "4 C05", "reference-model oracle for targets + per-target relation-filter queries after every op + illegal-target fault injection",
         "Held on the executions observed: Relations.Get/Query.Relation and relation-filter queries for every target ever used agree with the model after every op; dead/recycled targets are rejected by every target-taking entry point (fault rows target.dead.*).",
         "Trusts the harness model; generic entry points are covered by C18's differential check."),
 "C06": ("exploration", "4 C06", "reference model + hooked invariants (retired tables empty/zeroed, free lists) + per-target queries under target-death workloads",
         "Held on the executions observed: target deaths in all three retirement triggers, self-targets and same-batch parent/children removals never panic, never change bystanders, and reused tables start empty and zeroed.",
         "Hook file is trusted to read the structures correctly."),
 "C07": ("exploration", "4 C07", "differential: registered vs original filter after every op (shadow comparator), prefix-replayed twin world for batch ops, hooked cache invariant",
         "Held on the executions observed: every live registration yields the same multiset as its original filter after every op, across target deaths, table recycling and Resets; batch ops through the cached and the original form leave equal worlds.",
         "Compares arche with arche and with the harness model."),
 "C08": ("exploration", "4 C08", "differential: batch call vs loop of single calls on a prefix-replayed twin world, plus reference model",
         "Held on the executions observed: for every batch method the batch call and the documented single calls leave equal worlds, counts, Q-query contents and (for creation) handle sequences.",
         "An empty batch exchange may return 0 (documented as 'affected entities')."),
 "C09": ("fault_enumeration", "4 C09", "lock ledger (trace monitor) + enumeration of every structural entry point x lock source x release path with before/after snapshots",
         "Every row of the entry-point table (36 ID-based rows; generic entry points with unseen types in every second case) is exercised in every run under every lock source (plain, cached, batch-result, nested up to the limit, removal callback) and must panic leaving public snapshot + hidden digest unchanged; the lock ledger is compared after every open/release and, in mode ledger, after every operation under restricted listeners; world states are sampled.",
         "World states at which locks are taken are sampled; generic entry points route through the same core functions and are exercised by C18."),
 "C10": ("fault_enumeration", "4 C10", "fault table of illegal-argument classes x operations injected at sampled states, with full before/after snapshot equality for single-entity operations",
         "Every row of the fault table (110 rows + 4 batch-query probes, enforced per run) is exercised in every run; each call must panic; single-entity failures must leave the public snapshot, the hidden core digest and the invariants unchanged, and the history continues under the model.",
         "World states are sampled; batch operations are only required to panic."),
 "C11": ("exploration", "4 C11", "offline trace checker over the recorded listener event stream against the model's per-entity before/after diff",
         "Held on the executions observed: exactly one truthful event per changed entity, none otherwise, with the documented delivery timing for single, batch and Q-variant operations.",
         "Reset and LoadEntities are epoch boundaries (no events are specified for them)."),
 "C12": ("exploration", "4 C12", "differential: restricted listener / Dispatch sub-listener on a replayed twin world vs the selection rule applied to the full recorded stream",
         "All 64 subscription masks are run against every history; each restricted listener and each Dispatch sub-listener (incl. late additions, nested Dispatch) receives exactly the rule-selected subsequence, per op, in order.",
         "The selection rule is implemented once in the harness from the documentation."),
 "C13": ("exploration", "4 C13", "differential transcripts: second world with forced GC / churn goroutine in-process, and across separate processes (GOMAXPROCS 1 vs 16, second toolchain)",
         "Held on the executions observed: per-op transcripts (handles, iteration order, events, counts, dumps) are identical between two worlds and between processes with different hash seeds and scheduling.",
         "GC timing and map seeding are sampled, not enumerated."),
 "C14": ("exploration", "4 C14", "canary objects with checksums and finalizers under forced GC with GODEBUG=clobberfree (r1), concurrent collector with gccheckmark on typed paths (r2), runtime's own heap checks; r3 reproduces known finding",
         "Held on the executions observed in regimes r1 and r2: no canary referenced by a live component is damaged or finalized; canaries only reachable from removed rows are collected (exact accounting). Regime r3 (concurrent marking x raw-copy paths) is a recorded known finding and never decides the verdict.",
         "r1 cannot see barrier defects by construction; GC schedules are sampled. KF-C14-barrier stands."),
 "C15": ("exploration", "4 C15", "differential: reset world vs fresh world given the same registrations and the same post-reset history",
         "Held on the executions observed: after Reset no entity/resource/lock remains; handles, counts, Q-query contents, event multisets, entity state and registered-filter results equal those of a fresh world, over up to 6 reset cycles.",
         "Batch removals of more than one entity are excluded from the twin phase (their recycling order follows iteration order, which the property leaves open)."),
 "C16": ("exploration", "4 C16", "registration-log oracle for every registry size 0..limit + model-checked mini-history on boundary IDs + hooked layout invariants + checkptr/ASan",
         "Every number of registered types from 0 to the limit is run in every tier for both registries; IDs are stable, dense and consistently reported; the relation flag follows the type shape; the highest IDs are usable on old and new tables; limit+1 and registration while locked are rejected without effect.",
         "Interleavings of registration and table creation are sampled."),
 "C17": ("exploration", "4 C17", "differential: dumped world vs loaded world (fresh or reset, any capacity increment), JSON round trips",
         "Held on the executions observed: same Alive answers for every handle ever issued, identical dump after load, identical future handle sequence, handles unchanged by JSON, load refused on used worlds.",
         "Continuations use creation/removal operations only (loaded entities have no components)."),
 "C18": ("exploration", "4 C18", "differential: generic call on world G vs documented ID-based call on lock-step twin K, plus model and per-position pointer comparison",
         "Held on the executions observed: for arities 0-12 (two instantiations each) generic calls equal their ID-based equivalents in handles, counts, Q-query contents, events and state; QueryN.Get/MapN.Get return the declared component per position; FilterN selections equal the composed core filter for random builder-call orders before and between queries, registered or not.",
         "Optional together with Exclusive is don't-care; type parameters are G0..G(N-1) / RelA,G1.. at shuffled IDs."),
 "C19": ("exploration", "4 C19", "Go race detector over concurrently driven worlds (own state, one shared dump, shared caller-owned filters/listeners/values) + solo-vs-concurrent transcript comparison",
         "Held on the executions observed: no race report and no cross-talk with 8 (32) goroutines each driving its own worlds through full-mix and generic-API histories (concurrent phase first, so package-level state is cold), with 6 worlds loaded from one shared dump, and with 6 worlds sharing caller-owned filters, a Dispatch listener and component values.",
         "The race detector only sees code paths that two goroutines actually reach."),
 "C20": ("exploration", "4 C20", "map-model oracle for resources by exact pointer through all three access paths after every step, with strict add/remove faults",
         "Held on the executions observed: Has/Get through Resources, generic.Resource and GetResource equal the model after every step, independent of entity operations, locks and other resource types; strict add/remove panic without effect; Reset clears.",
         "Generic access covers the 14 static types; other resource types go through the ID-based path."),
}

ALL = ["C%02d" % i for i in range(1, 21)]
checks = []
for pid in ALL:
    if pid not in CHECKS:
        continue
    level, ref, tech, text, note = CHECKS[pid]
    checks.append({
        "property_id": pid,
        "quick_cmd": f"bin/verif check {pid} --tier quick",
        "thorough_cmd": f"bin/verif check {pid} --tier thorough",
        "evidence_file": f"/verif/evidence/{pid}.json",
        "replay_cmd_template": "bin/verif replay {path}",
        "engine": "harness",
        "level_claimed": {"category": level, "text": text, "design_ref": "DESIGN.md section " + ref},
        "level_note": note,
        "technique": tech,
    })
na = [{"property_id": p, "reason": "not claimed"} for p in ALL if p not in CHECKS]
manifest = {
    "version": 1,
    "setup_cmd": "cd /verif/harness && cp /repo/go.sum . && env GOFLAGS=-mod=mod GOPROXY=off GOSUMDB=off GOTOOLCHAIN=local GOWORK=off go build -o /verif/bin/verif ./cmd/verif && /verif/bin/verif build",
    "hooks": {
        "guard": "verif",
        "enable": "go build -tags verif (file ecs/verif_hooks.go has //go:build verif)",
        "baseline_off_cmd": "cd /repo && env -u GOFLAGS GOPROXY=off GOSUMDB=off GOTOOLCHAIN=local go test -vet=off -count=1 ./...",
        "source_commits": hook_commits,
        "add_only": True,
    },
    "engines": [{"name": "harness", "path": "/verif/harness", "serves_properties": sorted(CHECKS), "kind_free_text": "Go harness: generated hostile workloads on the real library, reference-model / trace / differential monitors, hooked invariants, sanitizer builds; runner cmd/verif fans child processes out over the cores"}],
    "checks": checks,
    "not_applicable": na,
    "notes": "Runtime monitoring and sanitizers only. Verdicts are 'held on the executions observed'. See DESIGN.md.",
}
json.dump(manifest, open("/verif/MANIFEST.json", "w"), indent=1)
print("checks:", len(checks), "not_applicable:", len(na))
