#!/bin/bash
# Runs seeded changes against their checks with the hooks compiled out (public-API monitors only).
# args: name:C01,C02 ...
for m in "$@"; do
  name=${m%%:*}; props=$(echo "${m#*:}" | tr "," " ")
  out=$(VERIF_NOHOOKS=1 /verif/mutcheck.sh /verif/seeded/$name/patch.diff $props 2>&1)
  echo "$name: $(echo "$out" | grep '^== C' | sed 's/property=.*violations=/violations=/; s/ known.*//' | tr '\n' ' ') kinds: $(echo "$out" | grep -o 'kind=[^ ]*' | sort -u | head -4 | tr '\n' ' ')"
done
