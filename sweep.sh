#!/bin/bash
# Runs every check at several seeds (quick tier by default) and reports anything that is not a clean pass.
# usage: sweep.sh "<seeds>" [tier] [props...]
set -u
ROOT="$(cd "$(dirname "$0")" && pwd)"
export VERIF_ROOT="$ROOT"
SEEDS="${1:-2 3 4}"
TIER="${2:-quick}"
shift 2 2>/dev/null || true
PROPS="${*:-C01 C02 C03 C04 C05 C06 C07 C08 C09 C10 C11 C12 C13 C14 C15 C16 C17 C18 C19 C20}"
(cd "$ROOT/harness" && cp "${VERIF_REPO:-/repo}/go.sum" . && env GOFLAGS=-mod=mod GOPROXY=off GOSUMDB=off GOTOOLCHAIN=local GOWORK=off go build -o "$ROOT/bin/verif" ./cmd/verif) || exit 2
bad=0
for s in $SEEDS; do
  for p in $PROPS; do
    out=$(VERIF_SEED=$s "$ROOT/bin/verif" check "$p" --tier "$TIER" 2>&1); rc=$?
    line=$(echo "$out" | grep "^property=" | tail -1)
    echo "seed=$s rc=$rc $line"
    if [ $rc -ne 0 ]; then bad=1; echo "$out" | head -40; fi
  done
done
echo "SWEEP-DONE bad=$bad"
exit $bad
