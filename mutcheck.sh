#!/bin/bash
# Applies a seeded change to /repo, runs the existing suite and the given checks against it, and always reverts.
# Evidence files are saved before and restored afterwards: committed evidence must come from the unchanged tree.
# usage: mutcheck.sh <patch.diff> <prop>...   (VERIF_TIER / VERIF_SEED honoured)
set -u
PATCH="$1"; shift
if [ -n "$(git -C /repo status --porcelain)" ]; then echo "/repo not clean"; exit 2; fi
EVB=$(mktemp -d /verif/bin/evidence-backup.XXXXXX)
cp -a /verif/evidence/. "$EVB"/ 2>/dev/null
trap 'git -C /repo checkout -- . ; git -C /repo status --porcelain; cp -a "$EVB"/. /verif/evidence/ 2>/dev/null; rm -rf "$EVB"' EXIT
git -C /repo apply "$PATCH" || { echo "patch does not apply"; exit 2; }
echo "== existing suite with the change"
(cd /repo && env -u GOFLAGS GOPROXY=off GOSUMDB=off GOTOOLCHAIN=local go test -vet=off -count=1 ./... 2>&1 | grep -v "no test files" | sed 's/^/   /')
(cd /repo && env -u GOFLAGS GOPROXY=off GOSUMDB=off GOTOOLCHAIN=local go test -vet=off -count=1 -tags tiny ./ecs/... 2>&1 | sed 's/^/   tiny: /')
for p in "$@"; do
  out=$(/verif/bin/verif check "$p" 2>&1); rc=$?
  echo "== $p rc=$rc $(echo "$out" | grep '^property=' | tail -1)"
  echo "$out" | grep -A3 "^VIOLATION" | head -12 | cut -c1-400
done
