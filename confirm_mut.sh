#!/bin/bash
# Confirms a seeded change delivered in a scratch worktree: suite green with it, demo fails with it, demo passes without it.
# usage: confirm_mut.sh <worktree> <pkgdir for the demo, e.g. ecs> [extra go test flags]
set -u
W="$1"; PKG="${2:-ecs}"; shift 2 2>/dev/null || true
GO="env -u GOFLAGS GOPROXY=off GOSUMDB=off GOTOOLCHAIN=local go"
cd "$W" || exit 2
[ -s _seeded/patch.diff ] || { echo "no patch"; exit 2; }
git checkout -q -- . 2>/dev/null; rm -f ecs/verif_hooks.go
git apply _seeded/patch.diff || { echo "patch does not apply to a clean tree"; exit 2; }
echo "== suite with change"; $GO test -vet=off -count=1 ./... 2>&1 | grep -v "no test files"; s1=${PIPESTATUS[0]}
$GO test -vet=off -count=1 -tags tiny ./ecs/... 2>&1 | sed 's/^/tiny: /'; s2=${PIPESTATUS[0]}
cp _seeded/demo_test.go "$PKG/zz_seeded_demo_test.go"
echo "== demo with change (must FAIL)"; $GO test -vet=off -count=1 -run TestSeededDemo "$@" "./$PKG/" 2>&1 | tail -8; d1=${PIPESTATUS[0]}
git apply -R _seeded/patch.diff
echo "== demo without change (must PASS)"; $GO test -vet=off -count=1 -run TestSeededDemo "$@" "./$PKG/" 2>&1 | tail -3; d2=${PIPESTATUS[0]}
rm -f "$PKG/zz_seeded_demo_test.go"
git apply _seeded/patch.diff
echo "RESULT suite=$s1 tiny=$s2 demo_with=$d1 demo_without=$d2"
if [ $s1 -eq 0 ] && [ $s2 -eq 0 ] && [ $d1 -ne 0 ] && [ $d2 -eq 0 ]; then echo CONFIRMED; else echo NOT-CONFIRMED; fi
