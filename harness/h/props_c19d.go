package h

import (
	"fmt"

	"github.com/mlange-42/arche/ecs"
	"github.com/mlange-42/arche/ecs/event"
	"github.com/mlange-42/arche/listener"
)

// c19Interleaved: three worlds with the same component types at the same IDs are driven in turns by ONE goroutine -
// the way a program steps several simulations in a loop - and share caller-owned generic filter objects
// (generic.FilterN takes the world per call, so one filter object can serve several worlds; it is registered in
// at most one of them at a time). After every operation on one world, everything observable about the other
// worlds - the full public snapshot incl. registry, resources, registered-filter results and Stats, plus the
// hidden digest of the hooks - must be what it was; each world is also checked against its own model.
func c19Interleaved(c *Ctx) {
	cfg := c18Cfg(c.R)
	const n = 3
	p := DefaultProfile()
	for k := range p.W {
		p.W[k] /= 2
	}
	p.Zero("RegisterType", "Reset", "QueryCheck")
	p.W["CacheRegister"], p.W["CacheUnregister"] = 3, 2
	p.W["G.Map"], p.W["G.Single"], p.W["G.Ex"], p.W["G.Filter"] = 20, 6, 10, 70
	shared := map[int]*gfState{}
	ss := make([]*Sess, n)
	gs := make([]*Gen, n)
	for i := range ss {
		ss[i] = NewSess(cfg, Opts{Model: true, Track: true, Inv: i == 0})
		ss[i].gfs = shared
		gs[i] = NewGen(NewRng(c.Seed, uint64(c.Case), uint64(i), 4242), ss[i], p)
		gs[i].nextSlot = i * 1000
	}
	digest := func(s *Sess) string {
		d := s.PublicSnapshot()
		if HooksOn {
			core, aux := hookShape(s.W)
			d += core + aux
		}
		return d
	}
	last := make([]string, n)
	for i := range ss {
		last[i] = digest(ss[i])
	}
	{
		// two more worlds that know the same named types under different IDs: what each reports and prints about
		// its component types is its own registry, whichever world was asked first
		ws := []*ecs.World{}
		for k := 0; k < 2; k++ {
			w := ecs.NewWorld()
			keys := []string{"S0", "S1", "S2", "S3", "S4", "S5", "S6", "S7"}
			Shuffle(c.R, keys)
			ids := []ecs.ID{}
			for _, key := range keys[:3+c.R.Intn(5)] {
				ids = append(ids, ecs.TypeID(&w, TypeOfKey(key)))
			}
			w.NewEntity(ids[0], ids[1])
			w.NewEntity(ids[2])
			w.NewEntity(ids[1], ids[2])
			ws = append(ws, &w)
		}
		for round := 0; round < 2; round++ {
			for k, w := range ws {
				if msg := statsNames(w); msg != "" {
					c.Fail(Violation{Kind: "crosstalk.stats", Msg: fmt.Sprintf("helper world %d, round %d: %s", k, round, msg)}, nil)
					return
				}
				c.Cov.N["stats_names_checked"]++
			}
		}
	}
	if c.Case%3 == 0 {
		// one world keeps the query of a batch creation open (it is inspecting what it created) while another world
		// runs more than a thousand batch operations; then the first one finishes its query
		ha, hb := ecs.NewWorld(), ecs.NewWorld()
		ia := []ecs.ID{ecs.TypeID(&ha, TypeOfKey("S0")), ecs.TypeID(&ha, TypeOfKey("S1"))}
		ib := []ecs.ID{ecs.TypeID(&hb, TypeOfKey("S2")), ecs.TypeID(&hb, TypeOfKey("S0")), ecs.TypeID(&hb, TypeOfKey("S1"))}
		events := 0
		cb := listener.NewCallback(func(w *ecs.World, e ecs.EntityEvent) { events++ }, event.EntityCreated)
		ha.SetListener(&cb)
		nA := 20 + c.R.Intn(100)
		q := ecs.NewBuilder(&ha, ia...).NewBatchQ(nA)
		ecs.NewBuilder(&hb, ib[0]).NewBatch(3)
		fAdd := ecs.All(ib[0]).Without(ib[1])
		fRem := ecs.All(ib[0], ib[1])
		for k := 0; k < 1100+c.R.Intn(400); k++ {
			if k%2 == 0 {
				hb.Batch().Add(&fAdd, ib[1])
			} else {
				hb.Batch().Remove(&fRem, ib[1])
			}
		}
		cnt, seen := q.Count(), 0
		for q.Next() {
			seen++
		}
		if cnt != nA || seen != nA || events != nA {
			c.Fail(Violation{Kind: "crosstalk.openbatch", Msg: fmt.Sprintf("a world created %d entities with NewBatchQ and kept the query open while another world ran batch operations: Count()=%d, iterated %d, creation events %d", nA, cnt, seen, events)}, nil)
			return
		}
		c.Cov.N["batch_query_held_open_across_1000_foreign_batches"]++
	}
	users := map[int]map[int]bool{} // filter slot -> worlds that used it
	crossReg := 0
	steps := 160
	for step := 0; step < steps; step++ {
		i := c.R.Intn(n)
		op := gs[i].Next()
		if c.R.Chance(0.06) {
			// a filter object that is registered in another world must not be registrable here as well
			slots := []int{}
			for sl, st := range shared {
				if st.registered && st.owner != nil && st.owner != ss[i] {
					slots = append(slots, sl)
				}
			}
			if len(slots) > 0 {
				sortInts(slots)
				st := shared[Pick(c.R, slots)]
				if !mustPanic(func() { st.f.Register(ss[i].W) }) {
					c.Fail(Violation{Kind: "illegal.nopanic:dup.generic.Filter.Register.otherworld", Step: step,
						Msg: fmt.Sprintf("a generic filter registered in one world was registered in world %d as well without a panic", i)},
						map[string]any{"world": i})
					break
				}
				c.Cov.N["cross_world_double_registration_rejected"]++
				bad := false
				for j := range ss {
					if d := digest(ss[j]); d != last[j] {
						c.Fail(Violation{Kind: "illegal.changed:dup.generic.Filter.Register.otherworld", Step: step,
							Msg: fmt.Sprintf("the rejected registration changed what world %d reports: %s", j, firstDiff(last[j], d))}, nil)
						bad = true
						break
					}
				}
				if bad {
					break
				}
			}
		}
		ss[i].Do(op)
		if ss[i].Failed() {
			v := ss[i].Viol[0]
			v.Msg = fmt.Sprintf("world %d of %d driven in turns: %s", i, n, v.Msg)
			c.Fail(v, SessWitness{Cfg: ss[i].Cfg, Ops: ss[i].Log})
			break
		}
		if op.Slot != nil && (op.K == "GFQuery" || op.K == "GFReg" || op.K == "GFMod") {
			if users[*op.Slot] == nil {
				users[*op.Slot] = map[int]bool{}
			}
			if op.K == "GFReg" && !op.Alt && len(users[*op.Slot]) > 0 && !users[*op.Slot][i] {
				crossReg++
				c.Cov.N["shared_filter_registered_in_a_world_other_than_its_first_user"]++
			}
			users[*op.Slot][i] = true
		}
		failed := false
		for j := range ss {
			if j == i {
				continue
			}
			if d := digest(ss[j]); d != last[j] {
				c.Fail(Violation{Kind: "crosstalk.interleaved", Step: step, Op: op.String(),
					Msg: fmt.Sprintf("operation %s on world %d changed what world %d reports: %s", op.K, i, j, firstDiff(last[j], d))},
					map[string]any{"world": i, "other": j, "ops_world": ss[i].Log})
				failed = true
				break
			}
			c.Cov.N["other_world_snapshots_compared"]++
		}
		if failed {
			break
		}
		last[i] = digest(ss[i])
	}
	for _, s := range ss {
		c.Cov.Merge(s.Cov)
	}
	c.AddEvaluations(n - 1)
	multi := 0
	for _, u := range users {
		if len(u) >= 2 {
			multi++
		}
	}
	c.Sample(map[string]any{"mode": "interleaved", "case": c.Case, "worlds": n, "shared_filters_used_by_2plus_worlds": multi, "cross_registrations": crossReg})
	if len(c.viol) == 0 && multi >= 1 {
		c.NonTrivial(HashStr(fmt.Sprint("c19il", c.Seed, c.Case)))
	}
}
