package h

import (
	"fmt"
	"reflect"
	"sort"
	"unsafe"

	"github.com/mlange-42/arche/ecs"
)

// Replay builds a new session by re-executing an op list on a fresh world.
func Replay(cfg Cfg, o Opts, ops []*Op) *Sess {
	s := NewSess(cfg, o)
	for _, op := range ops {
		if s.Failed() {
			break
		}
		s.Do(op)
	}
	return s
}

// EntSnap is the public observable state of one entity.
type EntSnap struct {
	IDs    []int
	Vals   map[int]string
	Target ecs.Entity
}

// Snapshot reads the whole entity state through the public API.
func (s *Sess) Snapshot() map[ecs.Entity]EntSnap {
	res := map[ecs.Entity]EntSnap{}
	q := s.W.Query(ecs.All())
	for q.Next() {
		e := q.Entity()
		m := q.Mask()
		sn := EntSnap{IDs: s.maskNums(&m), Vals: map[int]string{}}
		for _, id := range sn.IDs {
			n := s.M.Types[id].Size
			if n > 0 {
				sn.Vals[id] = string(unsafe.Slice((*byte)(q.Get(s.IDs[id])), n))
			}
			if s.M.Types[id].Rel {
				sn.Target = q.Relation(s.IDs[id])
			}
		}
		res[e] = sn
	}
	return res
}

func diffSnap(a, b map[ecs.Entity]EntSnap) string {
	for e, sa := range a {
		sb, ok := b[e]
		if !ok {
			return fmt.Sprintf("entity %v exists only in the first world", e)
		}
		if !reflect.DeepEqual(sa.IDs, sb.IDs) {
			return fmt.Sprintf("entity %v has components %v vs %v", e, sa.IDs, sb.IDs)
		}
		if sa.Target != sb.Target {
			return fmt.Sprintf("entity %v has target %v vs %v", e, sa.Target, sb.Target)
		}
		for id, v := range sa.Vals {
			if sb.Vals[id] != v {
				return fmt.Sprintf("entity %v component %d holds %x vs %x", e, id, v, sb.Vals[id])
			}
		}
	}
	for e := range b {
		if _, ok := a[e]; !ok {
			return fmt.Sprintf("entity %v exists only in the second world", e)
		}
	}
	return ""
}

// TwinBatch executes a batch op on A, and its equivalent on a prefix-replayed twin B:
// mode "singles": the documented single-entity call for each entity B's query yields (C08);
// mode "otherform": the same batch call through the other form of the filter, cached <-> original (C07).
// It returns false if a violation was recorded on A.
func TwinBatch(a *Sess, op *Op, mode string) bool {
	b := Replay(a.Cfg0, Opts{}, a.Log)
	if b.Failed() {
		a.Cov.N["twin_replay_failed"]++
		a.Do(op)
		return !a.Failed()
	}
	if b.Transcript() != a.Transcript() {
		// a determinism problem: not C07/C08's business (C13 decides it)
		a.Cov.N["twin_diverged_before"]++
		a.Do(op)
		return !a.Failed()
	}
	outA := a.Do(op)
	if a.Failed() {
		return false
	}
	spec := a.specOf(op)
	if op.K == "CacheUnregister" {
		return true
	}
	switch mode {
	case "singles":
		var affected []ecs.Entity
		if op.K == "NewBatch" {
			for i := 0; i < op.N; i++ {
				o := *op
				o.K, o.N, o.Q = "BuilderNew", 0, false
				out := b.Do(&o)
				if b.Failed() {
					a.fail("twin.single.failed", "single-call twin failed: %s", b.Viol[0].Msg)
					return false
				}
				affected = append(affected, out.Ents[0])
			}
			if op.Q && outA.QFull {
				if !reflect.DeepEqual(outA.QEnts, affected) {
					a.fail("twin.handles", "NewBatchQ(%d) issued %v, %d x New issues %v", op.N, outA.QEnts, op.N, affected)
					return false
				}
			} else if !sameEntSet(outA.Created, affected) {
				a.fail("twin.handles", "NewBatch(%d) issued %v, %d x New issues %v", op.N, outA.Created, op.N, affected)
				return false
			}
		} else {
			var f ecs.Filter
			if op.Slot != nil {
				f, _ = b.filterOf(op)
			} else {
				f = spec.Build(b.IDs, entOf)
			}
			matched := b.iterate(f)
			for _, e := range matched {
				o := &Op{E: entP(e), Add: op.Add, Rem: op.Rem, Rel: op.Rel, T: op.T}
				changed := true
				switch op.K {
				case "BatchAdd":
					o.K = "Add"
				case "BatchRemove":
					o.K = "Remove"
				case "BatchExchange":
					o.K = "Exchange"
				case "RelExchangeBatch":
					o.K = "RelExchange"
				case "BatchSetRel":
					o.K = "RelSet"
					changed = b.M.Alive[e].Target != entOf(*op.T)
				case "BatchRemoveEntities":
					o.K = "RemoveEntity"
				}
				if len(op.Add)+len(op.Rem) == 0 && op.K != "BatchSetRel" && op.K != "BatchRemoveEntities" {
					changed = false
				}
				b.Do(o)
				if b.Failed() {
					a.fail("twin.single.failed", "single-call twin failed on %v: %s", e, b.Viol[0].Msg)
					return false
				}
				if changed {
					affected = append(affected, e)
				}
			}
			empty := len(op.Add)+len(op.Rem) == 0 && op.K != "BatchSetRel" && op.K != "BatchRemoveEntities"
			if !op.Q && outA.Count != len(matched) && !(empty && outA.Count == 0) {
				a.fail("twin.count", "%s returned %d, the filter matched %d entities before the call", op.K, outA.Count, len(matched))
				return false
			}
			if op.Q && outA.QFull && !sameEntSet(outA.QEnts, affected) {
				a.fail("twin.qents", "%s query iterated %v, the single calls affected %v", op.K, outA.QEnts, affected)
				return false
			}
			if len(matched) > 0 {
				a.Cov.N["twin_batches_nonempty"]++
			}
		}
	case "otherform":
		o := *op
		if op.Slot != nil {
			o.Slot = nil
			o.F = spec
		} else {
			// register the filter on B, use the cached form, unregister afterwards
			slot := 100000 + len(b.Log)
			b.Do(&Op{K: "CacheRegister", F: spec, Slot: ip(slot)})
			o.F = nil
			o.Slot = ip(slot)
			defer func() {
				if _, ok := b.regs[slot]; ok {
					b.Do(&Op{K: "CacheUnregister", Slot: ip(slot)})
				}
			}()
		}
		outB := b.Do(&o)
		if b.Failed() {
			a.fail("twin.otherform.failed", "the same batch call through the other filter form failed: %s", b.Viol[0].Msg)
			return false
		}
		if outA.Count != outB.Count {
			a.fail("twin.count", "%s returned %d through one filter form and %d through the other", op.K, outA.Count, outB.Count)
			return false
		}
		if op.Q && outA.QFull && outB.QFull && !sameEntSet(outA.QEnts, outB.QEnts) {
			a.fail("twin.qents", "%s query iterated %v through one filter form and %v through the other", op.K, outA.QEnts, outB.QEnts)
			return false
		}
	}
	if d := diffSnap(a.Snapshot(), b.Snapshot()); d != "" {
		a.fail("twin.state", "%s (%s twin): %s", op.K, mode, d)
		return false
	}
	// the entity pool is part of the observable state: it decides every handle issued from now on
	// (only when both worlds used the same form of the filter: cached and original lists may order tables differently,
	// and a batch removal recycles ids in iteration order)
	da, db := a.W.DumpEntities(), b.W.DumpEntities()
	if mode == "singles" && (fmt.Sprint(da.Entities) != fmt.Sprint(db.Entities) || da.Next != db.Next || da.Available != db.Available) {
		a.fail("twin.pool", "%s (%s twin): the entity pools differ afterwards (future handles would differ): next %d/%d available %d/%d entities %v vs %v", op.K, mode, da.Next, db.Next, da.Available, db.Available, da.Entities, db.Entities)
		return false
	}
	a.Cov.N["twin_compares"]++
	return true
}

func init() {
	CaseFns["C08"] = caseC08
}

func sortedSlots(m map[int]*regEntry) []int {
	r := []int{}
	for k := range m {
		r = append(r, k)
	}
	sort.Ints(r)
	return r
}

// C08: batch = singles, by prefix-replayed twin.
func caseC08(c *Ctx) {
	cfg := GenCfg(c.R, 0)
	p := DefaultProfile()
	p.Steps = 120
	p.MaxBatch = 40
	p.Scale(5, "NewBatch", "BatchAdd", "BatchRemove", "BatchExchange", "BatchSetRel", "RelExchangeBatch", "BatchRemoveEntities")
	p.Scale(2, "BuilderNew", "RelSet", "RemoveEntity")
	p.Zero("RegisterType", "QueryCheck", "Reset")
	s := NewSess(cfg, Opts{Track: true, Inv: c.Case%3 == 0, CacheCB: c.Case%4 == 1})
	g := NewGen(c.R, s, p)
	for i := 0; i < p.Steps && !s.Failed(); i++ {
		op := g.Next()
		if isBatchKind(op.K) {
			if op.Trav%3 != 0 {
				op.Trav %= 2 // mostly complete iterations, so Q-query contents can be compared
			}
			if !TwinBatch(s, op, "singles") {
				break
			}
		} else {
			s.Do(op)
		}
	}
	n := s.Cov.N
	finish(c, s, n["batch_2tables"] >= 1 && n["twin_batches_nonempty"] >= 3)
}
