package h

import (
	"fmt"
	"runtime"

	"github.com/mlange-42/arche/ecs"
	"runtime/debug"
	"sync/atomic"
)

func init() {
	CaseFns["C13"] = caseC13
	extraCalls["Dump"] = func(s *Sess, op *Op, out *Outcome) {
		d := s.W.DumpEntities()
		s.trace("dump", fmt.Sprint(d.Entities), d.Alive, d.Next, d.Available)
	}
	extraApply["Dump"] = func(s *Sess, op *Op, out *Outcome) []ExpEvent { return nil }
	extraGen["Dump"] = func(g *Gen) *Op { return &Op{K: "Dump"} }
}

var churnSink atomic.Pointer[[]byte]

// churn allocates garbage until stopped.
func churn(stop *atomic.Bool) {
	for !stop.Load() {
		b := make([]byte, 1<<12)
		churnSink.Store(&b)
		runtime.Gosched()
	}
}

// C13: determinism across worlds, GC timings and processes.
func caseC13(c *Ctx) {
	cfg := GenCfg(c.R, 0)
	p := DefaultProfile()
	p.Steps = 150
	p.Scale(3, "BuilderNew", "RelSet", "RemoveEntity", "QueryCheck", "NewBatch", "BatchSetRel", "BatchRemoveEntities")
	p.Scale(2, "CacheRegister")
	p.W["Dump"] = 4
	p.W["Reset"] = 1
	p.Late = lateKeys(c.R, 5)
	// world A: the reference run generates the op list
	a := NewSess(cfg, Opts{Events: true, Track: true})
	g := NewGen(c.R, a, p)
	if c.Case%4 == 2 {
		// a relation node with more tables than one storage page, most of them retired again: wherever the
		// library keeps tables in a hash map, its iteration order must not leak into results
		if rels := g.relsUsed(); len(rels) > 0 {
			rel := Pick(c.R, rels)
			ids := append(g.subsetAny(g.nonRels(), 2), rel)
			k := 34 + c.R.Intn(40)
			p.MaxEnts = 3*k + 40
			parents, kids := []ecs.Entity{}, map[ecs.Entity][]ecs.Entity{}
			for i := 0; i < k && !a.Failed(); i++ {
				if out := a.Do(&Op{K: "NewEntity", Add: g.subsetAny(g.nonRels(), 1)}); len(out.Ents) == 1 {
					parents = append(parents, out.Ents[0])
				}
			}
			for _, pe := range parents {
				for j := 0; j < 1+c.R.Intn(2) && !a.Failed(); j++ {
					if out := a.Do(&Op{K: "BuilderNew", Add: ids, Rel: ip(rel), T: entP(pe)}); len(out.Ents) == 1 {
						kids[pe] = append(kids[pe], out.Ents[0])
					}
				}
			}
			// retire 55-90 % of the tables: children first, then the target
			Shuffle(c.R, parents)
			for _, pe := range parents[:len(parents)*(55+c.R.Intn(35))/100] {
				for _, kid := range kids[pe] {
					if _, ok := a.M.Alive[kid]; ok && !a.Failed() {
						a.Do(&Op{K: "RemoveEntity", E: entP(kid)})
					}
				}
				if _, ok := a.M.Alive[pe]; ok && !a.Failed() {
					a.Do(&Op{K: "RemoveEntity", E: entP(pe)})
				}
			}
			a.Cov.N["many_targets_mostly_retired"]++
			p.Steps = 80
			p.Scale(3, "CacheRegister", "BatchRemoveEntities", "BatchExchange", "BatchAdd", "BatchRemove", "BatchSetRel", "QueryCheck")
			g = NewGen(c.R, a, p)
		}
	}
	for i := 0; i < p.Steps && !a.Failed(); i++ {
		a.Do(g.Next())
	}
	if a.Failed() {
		finish(c, a, false)
		return
	}
	c.Transcript(a.Transcript())
	// world B: same ops, with GC forced at PRNG-chosen boundaries, another GOGC and a churn goroutine
	old := debug.SetGCPercent(Pick(c.R, []int{1, 5, 100, -1}))
	var stop atomic.Bool
	done := make(chan struct{})
	if c.Case%2 == 0 {
		go func() { churn(&stop); close(done) }()
	} else {
		close(done)
	}
	b := NewSess(a.Cfg0, Opts{Events: true})
	gcs := 0
	for i, op := range a.Log {
		if c.R.Chance(0.15) {
			runtime.GC()
			gcs++
		}
		b.Do(op)
		if b.Failed() {
			break
		}
		if b.trOps[i] != a.trOps[i] {
			a.fail("determinism.world", "op %d (%s): a second fresh world given the same operations (GC forced %d times so far) produced different results (handles, iteration order, events or counts)", i, op.K, gcs)
			break
		}
	}
	stop.Store(true)
	<-done
	debug.SetGCPercent(old)
	if b.Failed() && !a.Failed() {
		a.fail("determinism.world.failed", "second world failed: %s", b.Viol[0].Msg)
	}
	a.Cov.N["gc_forced"] += gcs
	a.Cov.N["ops_compared"] += len(a.Log)
	// non-trivial: several targets on one node and a table reuse
	multi := map[string]map[string]bool{}
	for _, me := range a.M.Alive {
		if a.M.RelOf(me) >= 0 {
			k := fmt.Sprint(me.IDs())
			if multi[k] == nil {
				multi[k] = map[string]bool{}
			}
			multi[k][fmt.Sprint(me.Target)] = true
		}
	}
	three := false
	for _, ts := range multi {
		if len(ts) >= 3 {
			three = true
		}
	}
	finish(c, a, (three || a.Cov.N["table_reuses"] >= 1) && gcs >= 3)
}
