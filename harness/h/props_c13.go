package h

import (
	"encoding/json"
	"fmt"
	"runtime"

	"github.com/mlange-42/arche/ecs"
	"github.com/mlange-42/arche/generic"
	"runtime/debug"
	"sync/atomic"
)

func init() {
	CaseFns["C13"] = caseC13
	extraCalls["Dump"] = func(s *Sess, op *Op, out *Outcome) {
		d := s.W.DumpEntities()
		s.trace("dump", fmt.Sprint(d.Entities), d.Alive, d.Next, d.Available)
	}
	extraApply["Dump"] = func(s *Sess, op *Op, out *Outcome) []ExpEvent { return nil }
	extraGen["Dump"] = func(g *Gen) *Op { return &Op{K: "Dump"} }
	// Stats: what the world reports about itself is a return value like any other
	extraCalls["Stats"] = func(s *Sess, op *Op, out *Outcome) {
		st := s.W.Stats()
		s.trace("stats", fmt.Sprintf("%+v", st.Entities), st.CachedFilters, st.ComponentCount, st.Locked, len(st.Nodes))
	}
	extraApply["Stats"] = func(s *Sess, op *Op, out *Outcome) []ExpEvent { return nil }
	extraGen["Stats"] = func(g *Gen) *Op { return &Op{K: "Stats"} }
	// DumpJSON: a save - the entity dump and some handles go through encoding/json and come back unchanged
	extraCalls["DumpJSON"] = func(s *Sess, op *Op, out *Outcome) {
		d := s.W.DumpEntities()
		js, err := json.Marshal(&d)
		var back ecs.EntityDump
		if err != nil || json.Unmarshal(js, &back) != nil {
			s.fail("json.dump", "dump does not survive JSON: %v", err)
			return
		}
		if fmt.Sprint(back.Entities) != fmt.Sprint(d.Entities) || back.Next != d.Next || back.Available != d.Available || (len(d.Alive) > 0 && fmt.Sprint(back.Alive) != fmt.Sprint(d.Alive)) {
			s.fail("json.dump", "dump changed by a JSON round trip: %s", js)
			return
		}
		hs := s.M.AliveSorted()
		if len(hs) > 8 {
			hs = hs[:8]
		}
		// (handles as values inside a map: the shape a save file of a program has)
		doc := map[string]ecs.Entity{}
		for i, h := range hs {
			doc[fmt.Sprint(i)] = h
		}
		js2, err := json.Marshal(doc)
		back2 := map[string]ecs.Entity{}
		if err != nil || json.Unmarshal(js2, &back2) != nil || fmt.Sprint(back2) != fmt.Sprint(doc) {
			s.fail("json.handle", "entity handles changed by a JSON round trip: %s (%v)", js2, err)
			return
		}
		s.trace("dumpjson", len(js), len(js2))
	}
	extraApply["DumpJSON"] = func(s *Sess, op *Op, out *Outcome) []ExpEvent { return nil }
	extraGen["DumpJSON"] = func(g *Gen) *Op {
		if g.S.open > 0 {
			return nil
		}
		return &Op{K: "DumpJSON"}
	}
	// SetDispatchTrace installs a Dispatch whose members write every delivery into the transcript
	extraCalls["SetDispatchTrace"] = func(s *Sess, op *Op, out *Outcome) {
		l := s.buildListener(op.Lsn, func(path []int, w *ecs.World, e ecs.EntityEvent) {
			s.trace("deliver", fmt.Sprint(path), e.Entity, uint8(e.EventTypes))
		})
		s.W.SetListener(l)
	}
	extraApply["SetDispatchTrace"] = func(s *Sess, op *Op, out *Outcome) []ExpEvent { return nil }
	// GFRegDrop: a generic filter is registered and the filter object is dropped without Unregister (the
	// registration stays; nothing may depend on when the collector notices the dropped object)
	extraCalls["GFRegDrop"] = func(s *Sess, op *Op, out *Outcome) {
		switch op.N {
		case 0:
			generic.NewFilter0().Register(s.W)
		case 1:
			generic.NewFilter1[G0]().Register(s.W)
		default:
			generic.NewFilter2[G0, G1]().Register(s.W)
		}
	}
	extraApply["GFRegDrop"] = func(s *Sess, op *Op, out *Outcome) []ExpEvent { return nil }
	extraGen["GFRegDrop"] = func(g *Gen) *Op {
		if g.S.open > 0 || g.S.dropped >= 6 {
			return nil
		}
		// only types the world knows already (a generic filter would register missing ones)
		n := 0
		if g.S.keyID("S0") >= 0 {
			n = 1
			if g.S.keyID("S1") >= 0 {
				n = 2
			}
		}
		g.S.dropped++
		return &Op{K: "GFRegDrop", N: g.R.Intn(n + 1)}
	}
}

var churnSink atomic.Pointer[[]byte]

// churn allocates garbage until stopped.
func churn(stop *atomic.Bool) {
	for !stop.Load() {
		b := make([]byte, 1<<12)
		churnSink.Store(&b)
		runtime.Gosched()
	}
}

// C13: determinism across worlds, GC timings and processes.
func caseC13(c *Ctx) {
	cfg := GenCfg(c.R, 0)
	p := DefaultProfile()
	p.Steps = 150
	p.Scale(3, "BuilderNew", "RelSet", "RemoveEntity", "QueryCheck", "NewBatch", "BatchSetRel", "BatchRemoveEntities")
	p.Scale(2, "CacheRegister")
	p.W["Dump"] = 4
	p.W["DumpJSON"] = 2
	p.W["Stats"] = 4
	if c.Case%3 == 0 {
		p.W["GFRegDrop"] = 3
	}
	p.W["Reset"] = 1
	p.Late = lateKeys(c.R, 5)
	// world A: the reference run generates the op list
	var shared *keptDump
	if c.Case%6 == 5 {
		// both worlds start by loading one and the same EntityDump value (an argument like any other: the second
		// world must get from it what the first one got). Pool lengths sit around allocator size classes and
		// capacity increments; the dump comes straight from DumpEntities, through JSON, or with spare capacity.
		cfg.CapInc = Pick(c.R, []int{128, 128, 64, 32, 100, 1, 8})
		n := Pick(c.R, []int{111 + c.R.Intn(18), 223 + c.R.Intn(34), 5 + c.R.Intn(296), 60 + c.R.Intn(8), 28 + c.R.Intn(6)})
		shared = helperDump(c.R, n)
		d := shared.d
		switch c.R.Intn(3) {
		case 1:
			js, _ := json.Marshal(&d)
			d = ecs.EntityDump{}
			if err := json.Unmarshal(js, &d); err != nil {
				panic(err)
			}
		case 2:
			spare := make([]ecs.Entity, len(d.Entities), len(d.Entities)+1+c.R.Intn(300))
			copy(spare, d.Entities)
			d.Entities = spare
		}
		shared.d = d
		p.MaxEnts = len(shared.alive) + 40
		p.Steps = 80
		p.Scale(3, "NewEntity", "RemoveEntity", "NewBatch", "BatchRemoveEntities")
		p.Zero("Reset")
	}
	// every fifth case: the listener is a Dispatch of differently restricted callbacks that all write into the
	// transcript - the order in which the members of one Dispatch are called for one event is part of the sequence
	disp := c.Case%5 == 1
	a := NewSess(cfg, Opts{Events: !disp, Track: true})
	g := NewGen(c.R, a, p)
	if disp {
		used := a.Cfg.Used
		spec := &LsnSpec{Disp: []LsnSpec{{Subs: 63}, {Subs: 63, Comps: []int{used[0]}}, {Subs: 63, Comps: []int{used[1%len(used)]}},
			{Subs: 1 | 4, Comps: []int{used[0], used[2%len(used)]}}, {Subs: 63, Comps: []int{used[len(used)-1]}}, {Subs: 63, Comps: []int{used[1%len(used)]}}}}
		a.Do(&Op{K: "SetDispatchTrace", Lsn: spec})
		a.Cov.N["dispatch_member_order_in_transcript"]++
	}
	if shared != nil {
		k := *shared
		a.kept = &k
		a.Do(&Op{K: "ResetLoad"})
		a.Cov.N["shared_dump_first_op"]++
	}
	if c.Case%4 == 2 && shared == nil {
		// a relation node with more tables than one storage page, most of them retired again: wherever the
		// library keeps tables in a hash map, its iteration order must not leak into results
		if rels := g.relsUsed(); len(rels) > 0 {
			rel := Pick(c.R, rels)
			ids := append(g.subsetAny(g.nonRels(), 2), rel)
			k := 34 + c.R.Intn(40)
			p.MaxEnts = 3*k + 40
			parents, kids := []ecs.Entity{}, map[ecs.Entity][]ecs.Entity{}
			for i := 0; i < k && !a.Failed(); i++ {
				if out := a.Do(&Op{K: "NewEntity", Add: g.subsetAny(g.nonRels(), 1)}); len(out.Ents) == 1 {
					parents = append(parents, out.Ents[0])
				}
			}
			for _, pe := range parents {
				for j := 0; j < 1+c.R.Intn(2) && !a.Failed(); j++ {
					if out := a.Do(&Op{K: "BuilderNew", Add: ids, Rel: ip(rel), T: entP(pe)}); len(out.Ents) == 1 {
						kids[pe] = append(kids[pe], out.Ents[0])
					}
				}
			}
			if c.Case%8 == 2 {
				// many filters registered at a time (mostly relation filters), before most of the tables are retired
				p.MaxRegs = 17 + c.R.Intn(10)
				p.RelRegs = true
				g.P = p
				for i := 0; i < p.MaxRegs && !a.Failed(); i++ {
					if op := g.gen("CacheRegister"); op != nil {
						a.Do(op)
					}
				}
				a.Cov.N["histories_with_17plus_registrations"]++
			}
			// retire 55-90 % of the tables: children first, then the target
			Shuffle(c.R, parents)
			for _, pe := range parents[:len(parents)*(55+c.R.Intn(35))/100] {
				for _, kid := range kids[pe] {
					if _, ok := a.M.Alive[kid]; ok && !a.Failed() {
						a.Do(&Op{K: "RemoveEntity", E: entP(kid)})
					}
				}
				if _, ok := a.M.Alive[pe]; ok && !a.Failed() {
					a.Do(&Op{K: "RemoveEntity", E: entP(pe)})
				}
			}
			a.Cov.N["many_targets_mostly_retired"]++
			p.Steps = 80
			p.Scale(3, "CacheRegister", "BatchRemoveEntities", "BatchExchange", "BatchAdd", "BatchRemove", "BatchSetRel", "QueryCheck")
			g = NewGen(c.R, a, p)
		}
	}
	for i := 0; i < p.Steps && !a.Failed(); i++ {
		a.Do(g.Next())
	}
	if a.Failed() {
		finish(c, a, false)
		return
	}
	c.Transcript(a.Transcript())
	// world B: same ops, with GC forced at PRNG-chosen boundaries, another GOGC and a churn goroutine
	old := debug.SetGCPercent(Pick(c.R, []int{1, 5, 100, -1}))
	var stop atomic.Bool
	done := make(chan struct{})
	if c.Case%2 == 0 {
		go func() { churn(&stop); close(done) }()
	} else {
		close(done)
	}
	b := NewSess(a.Cfg0, Opts{Events: !disp})
	if shared != nil {
		k := *shared
		b.kept = &k
	}
	gcs := 0
	for i, op := range a.Log {
		if c.R.Chance(0.15) {
			runtime.GC()
			gcs++
		}
		b.Do(op)
		if b.Failed() {
			break
		}
		if b.trOps[i] != a.trOps[i] {
			a.fail("determinism.world", "op %d (%s): a second fresh world given the same operations (GC forced %d times so far) produced different results (handles, iteration order, events or counts)", i, op.K, gcs)
			break
		}
	}
	stop.Store(true)
	<-done
	debug.SetGCPercent(old)
	if b.Failed() && !a.Failed() {
		a.fail("determinism.world.failed", "second world failed: %s", b.Viol[0].Msg)
	}
	a.Cov.N["gc_forced"] += gcs
	a.Cov.N["ops_compared"] += len(a.Log)
	// non-trivial: several targets on one node and a table reuse
	multi := map[string]map[string]bool{}
	for _, me := range a.M.Alive {
		if a.M.RelOf(me) >= 0 {
			k := fmt.Sprint(me.IDs())
			if multi[k] == nil {
				multi[k] = map[string]bool{}
			}
			multi[k][fmt.Sprint(me.Target)] = true
		}
	}
	three := false
	for _, ts := range multi {
		if len(ts) >= 3 {
			three = true
		}
	}
	finish(c, a, (three || a.Cov.N["table_reuses"] >= 1) && gcs >= 3)
}
