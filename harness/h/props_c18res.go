package h

import (
	"fmt"
	"reflect"
	"sort"

	"github.com/mlange-42/arche/ecs"
	"github.com/mlange-42/arche/generic"
)

// C18, mode resource: generic.Resource / ecs.AddResource / ecs.GetResource against their ID-based equivalents.
//
// World G is only ever touched through the generic resource API (long-lived mappers, by-value copies of them,
// short-lived mappers, the package-level functions), world K only through Resources.Add/Remove/Has/Get with the
// resource IDs. Both get the same pointers. After PRNG-chosen steps every route into G must report exactly what
// K reports for the same type, and a call that panics on K must panic on G (and the other way round).
func caseC18Resource(c *Ctx) {
	if c.Case%500 == 0 {
		checkTypeLists(c)
		checkGenericKinds(c)
	}
	gw, kw := ecs.NewWorld(), ecs.NewWorld()
	keys := []string{"S0", "S1", "S2", "S3", "S4", "S5", "S6", "S7", "S8", "S9", "S10", "S11", "R0", "R1", "Q0", "Q1", "Q2", "Q3", "Q4", "Q5", "Q6"}
	Shuffle(c.R, keys)
	keys = keys[:2+c.R.Intn(len(keys)-1)]
	cov := NewCov()
	type slot struct {
		key     string
		kid     ecs.ResID
		mappers []resAcc
		present any
	}
	slots := []*slot{}
	// K and G register in different orders: the generic API goes by type, not by ID value
	korder := append([]string{}, keys...)
	Shuffle(c.R, korder)
	kids := map[string]ecs.ResID{}
	for _, k := range korder {
		kids[k] = ecs.ResourceTypeID(&kw, TypeOfKey(k))
	}
	for _, k := range keys {
		sl := &slot{key: k, kid: kids[k]}
		if c.R.Chance(0.7) {
			sl.mappers = append(sl.mappers, resPersistent[k](&gw))
		}
		slots = append(slots, sl)
	}
	log := []string{}
	var keep []any
	fail := func(kind, format string, a ...any) {
		c.Fail(Violation{Kind: kind, Msg: fmt.Sprintf(format, a...)}, map[string]any{"keys": keys, "log": log})
	}
	failed := false
	// route: 0 long-lived mapper, 1 fresh mapper, 2 package-level function
	pickRoute := func(sl *slot) (resAcc, string) {
		if len(sl.mappers) > 0 && c.R.Chance(0.5) {
			i := c.R.Intn(len(sl.mappers))
			return sl.mappers[i], fmt.Sprintf("mapper%d", i)
		}
		return resAccs[sl.key], "fresh"
	}
	tryCall := func(f func()) (p any) {
		defer func() { p = recover() }()
		f()
		return nil
	}
	observe := func(where string) bool {
		for _, sl := range slots {
			kHas, kGet := kw.Resources().Has(sl.kid), kw.Resources().Get(sl.kid)
			if kHas != (sl.present != nil) || ptrOf(kGet) != ptrOf(sl.present) {
				fail("res.twin.idbased", "%s: the ID-based world disagrees with the history for %s", where, sl.key)
				return false
			}
			routes := map[string]resAcc{"fresh": resAccs[sl.key]}
			for i, m := range sl.mappers {
				routes[fmt.Sprintf("mapper%d", i)] = m
			}
			names := []string{}
			for n := range routes {
				names = append(names, n)
			}
			sort.Strings(names)
			// (the order in which the routes are asked is part of the case: a route may keep state)
			Shuffle(c.R, names)
			for _, n := range names {
				acc := routes[n]
				var g any
				var has bool
				if p := tryCall(func() { has = acc.has(&gw); g = acc.get(&gw) }); p != nil {
					fail("res.twin.panic", "%s: generic.Resource[%s] (%s) Has/Get panicked (%v); Resources.Has/Get(id) do not", where, sl.key, n, p)
					return false
				}
				if acc.id(&gw) != ecs.ResourceTypeID(&gw, TypeOfKey(sl.key)) {
					fail("res.twin.id", "%s: generic.Resource[%s] (%s) has another ID than ResourceTypeID gives for its type", where, sl.key, n)
					return false
				}
				if has != kHas || ptrOf(g) != ptrOf(kGet) || (g == nil) != (kGet == nil) {
					fail("res.twin.get", "%s: generic.Resource[%s] (%s) reports has=%v get=%p; the ID-based equivalent has=%v get=%p", where, sl.key, n, has, g, kHas, kGet)
					return false
				}
				if g != nil && reflect.TypeOf(g) != reflect.TypeOf(kGet) {
					fail("res.twin.type", "%s: generic.Resource[%s].Get returns a %T, Resources.Get a %T", where, sl.key, g, kGet)
					return false
				}
				cov.N["res_twin_route_compares"]++
			}
			var g any
			if p := tryCall(func() { g = resAccs[sl.key].getFn(&gw) }); p != nil {
				fail("res.twin.panic", "%s: ecs.GetResource[%s] panicked (%v); Resources.Get(id) does not", where, sl.key, p)
				return false
			}
			if ptrOf(g) != ptrOf(kGet) || (g == nil) != (kGet == nil) {
				fail("res.twin.get", "%s: ecs.GetResource[%s] returns %p, Resources.Get(id) %p", where, sl.key, g, kGet)
				return false
			}
		}
		cov.N["res_twin_observations"]++
		return true
	}
	every := Pick(c.R, []int{1, 2, 3, 5, 8})
	steps := 120
	replaced := 0
	for i := 0; i < steps && !failed; i++ {
		sl := Pick(c.R, slots)
		switch c.R.Weighted([]int{6, 5, 3, 1, 2, 2}) {
		case 0, 1: // Add or Remove, whichever the current state makes legal or (1 in 6) illegal
			wantAdd := sl.present == nil
			if c.R.Chance(0.16) {
				wantAdd = !wantAdd
			}
			acc, route := pickRoute(sl)
			var pg, pk any
			if wantAdd {
				v := reflect.New(TypeOfKey(sl.key)).Interface()
				keep = append(keep, v)
				fn := acc.add
				if acc.addFn != nil && c.R.Chance(0.4) {
					fn, route = acc.addFn, "ecs.AddResource"
				}
				log = append(log, fmt.Sprintf("%d add %s via %s", i, sl.key, route))
				pg = tryCall(func() { fn(&gw, v) })
				pk = tryCall(func() { kw.Resources().Add(sl.kid, v) })
				if pk == nil {
					sl.present = v
				}
			} else {
				log = append(log, fmt.Sprintf("%d remove %s via %s", i, sl.key, route))
				pg = tryCall(func() { acc.remove(&gw) })
				pk = tryCall(func() { kw.Resources().Remove(sl.kid) })
				if pk == nil {
					sl.present = nil
				}
			}
			if (pg == nil) != (pk == nil) {
				fail("res.twin.panics", "step %d (%s): the generic call panicked=%v (%v), its ID-based equivalent panicked=%v (%v)", i, log[len(log)-1], pg != nil, pg, pk != nil, pk)
				failed = true
			}
			if pk != nil {
				cov.N["res_twin_rejected_calls"]++
			}
		case 2: // replace: Remove and Add back to back through two routes, nothing looks in between
			if sl.present == nil {
				continue
			}
			a1, r1 := pickRoute(sl)
			a2, r2 := pickRoute(sl)
			v := reflect.New(TypeOfKey(sl.key)).Interface()
			keep = append(keep, v)
			log = append(log, fmt.Sprintf("%d replace %s: remove via %s, add via %s", i, sl.key, r1, r2))
			if p := tryCall(func() { a1.remove(&gw); a2.add(&gw, v) }); p != nil {
				fail("res.twin.panics", "step %d (%s) panicked: %v", i, log[len(log)-1], p)
				failed = true
			}
			kw.Resources().Remove(sl.kid)
			kw.Resources().Add(sl.kid, v)
			sl.present = v
			replaced++
		case 3: // Reset of both worlds
			log = append(log, fmt.Sprintf("%d reset", i))
			gw.Reset()
			kw.Reset()
			for _, s2 := range slots {
				s2.present = nil
			}
			cov.N["res_twin_resets"]++
		case 4: // one more long-lived mapper, fresh or copied from an existing one in whatever state that is in
			if len(sl.mappers) >= 4 {
				continue
			}
			if len(sl.mappers) > 0 && c.R.Chance(0.6) {
				sl.mappers = append(sl.mappers, Pick(c.R, sl.mappers).fork())
				log = append(log, fmt.Sprintf("%d copy a mapper of %s", i, sl.key))
				cov.N["res_mapper_copies"]++
			} else {
				sl.mappers = append(sl.mappers, resPersistent[sl.key](&gw))
				log = append(log, fmt.Sprintf("%d new mapper for %s", i, sl.key))
			}
		case 5: // entity operations do not matter to resources
			e := gw.NewEntity()
			if c.R.Chance(0.5) {
				gw.RemoveEntity(e)
			}
		}
		if failed {
			break
		}
		if i%every == 0 || i == steps-1 {
			log = append(log, fmt.Sprintf("%d observe", i))
			if !observe(fmt.Sprintf("after step %d", i)) {
				failed = true
			}
		}
	}
	_ = keep
	c.Cov.Merge(cov)
	c.Sample(map[string]any{"case": c.Case, "keys": keys, "every": every, "tail": log[max(0, len(log)-8):]})
	if !failed && replaced >= 2 && cov.N["res_twin_rejected_calls"] >= 1 && cov.N["res_twin_observations"] >= 10 {
		c.NonTrivial(HashStr(fmt.Sprint(log)))
	}
}

// checkTypeLists: generic.T1..T12 are the documented way to spell the argument lists of With/Without/Optional;
// each must list exactly its type parameters, in order (compared with the single-type form T[X]).
func checkTypeLists(c *Ctx) {
	want := []generic.Comp{generic.T[G0](), generic.T[G1](), generic.T[G2](), generic.T[G3](), generic.T[G4](), generic.T[G5](),
		generic.T[G6](), generic.T[G7](), generic.T[G8](), generic.T[G9](), generic.T[G10](), generic.T[G11]()}
	got := [][]generic.Comp{
		generic.T1[G0](), generic.T2[G0, G1](), generic.T3[G0, G1, G2](), generic.T4[G0, G1, G2, G3](), generic.T5[G0, G1, G2, G3, G4](),
		generic.T6[G0, G1, G2, G3, G4, G5](), generic.T7[G0, G1, G2, G3, G4, G5, G6](), generic.T8[G0, G1, G2, G3, G4, G5, G6, G7](),
		generic.T9[G0, G1, G2, G3, G4, G5, G6, G7, G8](), generic.T10[G0, G1, G2, G3, G4, G5, G6, G7, G8, G9](),
		generic.T11[G0, G1, G2, G3, G4, G5, G6, G7, G8, G9, G10](), generic.T12[G0, G1, G2, G3, G4, G5, G6, G7, G8, G9, G10, G11](),
	}
	for n, l := range got {
		if len(l) != n+1 {
			c.Fail(Violation{Kind: "generic.typelist", Msg: fmt.Sprintf("generic.T%d lists %d types", n+1, len(l))}, nil)
			return
		}
		for i := range l {
			if l[i] != want[i] {
				c.Fail(Violation{Kind: "generic.typelist", Msg: fmt.Sprintf("generic.T%d: position %d is %v, declared type parameter %v", n+1, i, l[i], want[i])}, nil)
				return
			}
		}
	}
	c.Cov.N["type_lists_checked"] += len(got)
}

type kindStringer struct{ s string }

func (k kindStringer) String() string { return k.s }

// kindProbe runs the generic entry points for one component type of an unusual kind against the ID-based core.
func kindProbe[T any](c *Ctx, name string, val T, same func(a, b *T) bool) bool {
	want := reflect.TypeOf((*T)(nil)).Elem()
	if got := generic.T[T](); got != want {
		c.Fail(Violation{Kind: "generic.kind", Msg: fmt.Sprintf("generic.T[%s]() is %v, the type parameter is %v", name, got, want)}, nil)
		return false
	}
	if l := generic.T1[T](); len(l) != 1 || l[0] != want {
		c.Fail(Violation{Kind: "generic.kind", Msg: fmt.Sprintf("generic.T1[%s]() is %v", name, l)}, nil)
		return false
	}
	w := ecs.NewWorld()
	for i := 0; i < c.R.Intn(5); i++ {
		ecs.TypeID(&w, TypeOfKey(fmt.Sprintf("F%d", 9400+i)))
	}
	other := ecs.ComponentID[G0](&w)
	failed := false
	func() {
		defer func() {
			if p := recover(); p != nil {
				failed = true
				c.Fail(Violation{Kind: "generic.kind", Msg: fmt.Sprintf("component type %s: the generic API panicked where the ID-based calls work: %v", name, p)}, nil)
			}
		}()
		m := generic.NewMap1[T](&w)
		e1 := m.NewWith(&val)
		id := ecs.ComponentID[T](&w)
		if info, _ := ecs.ComponentInfo(&w, id); info.Type != want {
			tp := info.Type
			c.Fail(Violation{Kind: "generic.kind", Msg: fmt.Sprintf("ComponentID[%s] registered %v", name, tp)}, nil)
			failed = true
			return
		}
		e2 := w.NewEntity(id, other)
		*(*T)(w.Get(e2, id)) = val
		w.NewEntity(other)
		count := func(q interface{ Next() bool }, n int, what string) {
			k := 0
			for q.Next() {
				k++
			}
			if k != n && !failed {
				failed = true
				c.Fail(Violation{Kind: "generic.kind", Msg: fmt.Sprintf("component type %s: %s selects %d entities, the equivalent core filter selects %d", name, what, k, n)}, nil)
			}
		}
		f1 := generic.NewFilter1[T]()
		q1 := f1.Query(&w)
		for q1.Next() {
			if p := q1.Get(); p != (*T)(w.Get(q1.Entity(), id)) || !same(p, &val) {
				failed = true
				c.Fail(Violation{Kind: "generic.kind", Msg: fmt.Sprintf("component type %s: Query1.Get returns %p, World.Get %p (or the value differs)", name, p, w.Get(q1.Entity(), id))}, nil)
				q1.Close()
				return
			}
		}
		qq1 := generic.NewFilter1[T]().Query(&w)
		count(&qq1, 2, "Filter1")
		qq2 := generic.NewFilter0().With(generic.T[T]()).Query(&w)
		count(&qq2, 2, "Filter0.With")
		qq3 := generic.NewFilter1[G0]().Without(generic.T[T]()).Query(&w)
		count(&qq3, 1, "Filter1.Without")
		qq4 := generic.NewFilter2[G0, T]().Optional(generic.T[T]()).Query(&w)
		count(&qq4, 2, "Filter2.Optional")
		qq5 := generic.NewFilter1[T]().Exclusive().Query(&w)
		count(&qq5, 1, "Filter1.Exclusive")
		x := generic.NewExchange(&w).Adds(generic.T[G0]()).Removes(generic.T[T]())
		x.Exchange(e1)
		if w.Has(e1, id) || !w.Has(e1, other) {
			failed = true
			c.Fail(Violation{Kind: "generic.kind", Msg: fmt.Sprintf("component type %s: Exchange did not remove it / add the other component", name)}, nil)
			return
		}
		if m.Get(e2) != (*T)(w.Get(e2, id)) || m.Get(e1) != nil {
			failed = true
			c.Fail(Violation{Kind: "generic.kind", Msg: fmt.Sprintf("component type %s: Map1.Get disagrees with World.Get", name)}, nil)
		}
	}()
	c.Cov.N["generic_kinds_probed"]++
	return !failed
}

func checkGenericKinds(c *Ctx) {
	g := &G0{}
	pg := &g
	ch := make(chan int)
	_ = kindProbe[*G0](c, "*G0", g, func(a, b **G0) bool { return *a == *b }) &&
		kindProbe[**G0](c, "**G0", pg, func(a, b ***G0) bool { return *a == *b }) &&
		kindProbe[int](c, "int", 7, func(a, b *int) bool { return *a == *b }) &&
		kindProbe[[3]G0](c, "[3]G0", [3]G0{}, func(a, b *[3]G0) bool { return *a == *b }) &&
		kindProbe[chan int](c, "chan int", ch, func(a, b *chan int) bool { return *a == *b }) &&
		kindProbe[fmt.Stringer](c, "fmt.Stringer", kindStringer{"x"}, func(a, b *fmt.Stringer) bool { return *a == *b }) &&
		kindProbe[any](c, "any", 42, func(a, b *any) bool { return *a == *b }) &&
		kindProbe[error](c, "error", nil, func(a, b *error) bool { return *a == *b }) &&
		kindProbe[func() int](c, "func() int", nil, func(a, b *func() int) bool { return *a == nil && *b == nil }) &&
		kindProbe[map[string]int](c, "map[string]int", nil, func(a, b *map[string]int) bool { return *a == nil && *b == nil }) &&
		kindProbe[[]G0](c, "[]G0", nil, func(a, b *[]G0) bool { return *a == nil && *b == nil })
}
