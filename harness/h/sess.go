package h

import (
	"bytes"
	"fmt"
	"hash/fnv"
	"reflect"
	"runtime"
	"runtime/debug"
	"sort"
	"strings"
	"unsafe"

	"github.com/mlange-42/arche/ecs"
	"github.com/mlange-42/arche/ecs/event"
	"github.com/mlange-42/arche/listener"
)

// Cfg is a world configuration.
type Cfg struct {
	CapInc    int      `json:"capinc"`
	RelCapInc int      `json:"relcapinc"`
	Types     []string `json:"types"` // type keys in registration order
	Used      []int    `json:"used"`  // IDs the generator works with
}

// Opts selects the monitors of a session.
type Opts struct {
	Model   bool // compare world with model after every op
	Sweep   bool // full query sweep after every op
	Inv     bool // hooked invariants after every op
	Events  bool // recording listener + event trace check
	Cache   bool // shadow comparison of registered filters after every op
	Ledger  bool // handle ledger
	Targets bool // per-target relation query comparison after every op
	AllIDs  bool // check Has/Get for every registered ID, not only a sample
	NoTrans bool // do not compute transcript
	Track   bool // coverage counters (critical events)
	KeepEv  bool // keep the recorded events of every op (RecAll)
	CacheCB bool // a listener that registers, uses and drops a filter from inside every removal callback
}

// Violation is a detected property violation.
type Violation struct {
	Step int    `json:"step"`
	Kind string `json:"kind"` // key of the failing check
	Msg  string `json:"msg"`
	Op   string `json:"op,omitempty"`
}

type regEntry struct {
	spec   *FSpec
	orig   ecs.Filter
	cached ecs.CachedFilter
}

// RecEvent is a recorded listener notification with what the world reported at delivery time.
type RecEvent struct {
	Ev       ecs.EntityEvent
	Added    []int
	Removed  []int
	AddIDs   []int
	RemIDs   []int
	OldRel   int
	NewRel   int
	Locked   bool
	Held     bool
	ValueBad string
	Alive    bool
	Mask     []int
	Target   ecs.Entity
	QCall    int
	Step     int
	BatchOK  string // non-empty: another affected entity was not yet in its after-state
}

// Sess is one world driven by the harness, with its model and monitors.
type Sess struct {
	W     *ecs.World
	M     *Model
	Cfg   Cfg
	Cfg0  Cfg // configuration at creation (Cfg.Used grows with late registrations)
	O     Opts
	IDs   []ecs.ID
	idNum map[ecs.ID]int
	Log   []*Op
	Viol  []Violation
	Cov   *Cov
	Rng   *Rng // only for monitor sampling, never for op choice

	regs        map[int]*regEntry
	open        int // queries held open by the harness
	step        int
	wseq        int
	qcalls      int
	lsn         ecs.Listener
	rec         []RecEvent
	recOn       bool
	batchAff    map[ecs.Entity]*MEnt // expected after-state of entities affected by the running batch op
	tr          uint64
	trOps       []uint64
	targets     map[ecs.Entity]bool // every non-zero target ever used
	RecAll      [][]RecEvent
	gfs         map[int]*gfState
	kept        *keptDump
	stale       []ecs.CachedFilter // handles of filters that were unregistered
	replica     map[ecs.Entity]*replicaEnt
	gmaps       map[string]gMap         // long-lived generic MapN mappers (C18)
	gex         [2]*gexState            // long-lived generic Exchange objects (C18)
	gsingles    map[string]*gSingle     // long-lived generic Map[T] mappers (C18)
	builders    map[string]*ecs.Builder // long-lived builders, by configuration
	dropped     int                     // generic filters registered and dropped (C13)
	curOp       *Op                     // the operation being executed (for the listener)
	onQueryOpen func()                  // run once when the next batch call has returned its query, before it is consumed
	resMappers  map[string][]resAcc     // long-lived generic.Resource mappers (C20)
	Res         *ResModel
	ResIDs      []ecs.ResID
	ResKeys     []string
	keep        []any
}

// NewSess creates a world per cfg with all its types registered.
func NewSess(cfg Cfg, o Opts) *Sess {
	conf := ecs.NewConfig().WithCapacityIncrement(cfg.CapInc).WithRelationCapacityIncrement(cfg.RelCapInc)
	w := ecs.NewWorld(conf)
	cfg.Used = append([]int{}, cfg.Used...)
	s := &Sess{W: &w, M: NewModel(), Cfg: cfg, Cfg0: cfg, O: o, regs: map[int]*regEntry{}, idNum: map[ecs.ID]int{},
		Cov: NewCov(), targets: map[ecs.Entity]bool{}, Rng: NewRng(77)}
	for _, key := range cfg.Types {
		s.registerType(key)
	}
	if o.Events {
		s.recOn = true
		s.lsn = &recListener{s: s}
		s.W.SetListener(s.lsn)
	}
	if o.CacheCB && !o.Events {
		s.W.SetListener(&cacheListener{s: s})
	}
	s.tr = 1469598103934665603
	s.Res = &ResModel{Present: map[int]any{}}
	return s
}

// cacheListener uses the filter cache from inside removal callbacks (the world is locked there, but registering
// filters and querying are not structural changes): a filter over the last removed component (or everything) is
// registered, queried and dropped again, so the session's own registrations are as before.
type cacheListener struct{ s *Sess }

func (l *cacheListener) Subscriptions() event.Subscription { return event.EntityRemoved }
func (l *cacheListener) Components() *ecs.Mask             { return nil }
func (l *cacheListener) Notify(w *ecs.World, e ecs.EntityEvent) {
	if !w.IsLocked() {
		return
	}
	m := ecs.All()
	if n := len(e.RemovedIDs); n > 0 {
		m = ecs.All(e.RemovedIDs[n-1])
	}
	cf := w.Cache().Register(&m)
	q := w.Query(&cf)
	cnt := q.Count()
	q.Close()
	mq := w.Query(&m)
	if mq.Count() != cnt {
		l.s.fail("cache.callback", "a filter registered inside a removal callback selects %d entities, the plain filter %d", cnt, mq.Count())
	}
	mq.Close()
	w.Cache().Unregister(&cf)
	l.s.Cov.N["cache_ops_in_removal_callbacks"]++
}

func (s *Sess) registerType(key string) {
	info := infoOf(key)
	id := ecs.TypeID(s.W, info.Type)
	if n, ok := s.idNum[id]; ok {
		if s.M.Types[n].Key != key {
			// (the arrays are kept in step, so that the history can go on and be replayed)
			s.fail("registry.shared", "type %v was given the ID of the different type %v", info.Type, s.M.Types[n].Type)
			s.IDs = append(s.IDs, id)
			s.M.Types = append(s.M.Types, info)
		}
		return
	}
	s.idNum[id] = len(s.IDs)
	s.IDs = append(s.IDs, id)
	s.M.Types = append(s.M.Types, info)
}

func (s *Sess) fail(kind, format string, args ...any) {
	v := Violation{Step: s.step, Kind: kind, Msg: fmt.Sprintf(format, args...)}
	if len(s.Log) > 0 {
		v.Op = s.Log[len(s.Log)-1].String()
	}
	s.Viol = append(s.Viol, v)
}

// Failed reports whether a violation was recorded.
func (s *Sess) Failed() bool { return len(s.Viol) > 0 }

func (s *Sess) ids(xs []int) []ecs.ID {
	r := make([]ecs.ID, len(xs))
	for i, x := range xs {
		r[i] = s.IDs[x]
	}
	return r
}

func (s *Sess) nums(xs []ecs.ID) []int {
	r := make([]int, len(xs))
	for i, x := range xs {
		n, ok := s.idNum[x]
		if !ok {
			n = -1
		}
		r[i] = n
	}
	return r
}

func (s *Sess) maskNums(m *ecs.Mask) []int {
	r := []int{}
	for i, id := range s.IDs {
		if m.Get(id) {
			r = append(r, i)
		}
	}
	return r
}

// value creates a pointer to a fresh component value holding pattern k.
func (s *Sess) value(id int, k int) any {
	info := s.M.Types[id]
	v := reflect.New(info.Type)
	if info.Size > 0 {
		copy(unsafe.Slice((*byte)(v.UnsafePointer()), info.Size), info.Pat(k))
	}
	return v.Interface()
}

func (s *Sess) comps(ids []int, vals []int) []ecs.Component {
	r := make([]ecs.Component, len(ids))
	for i, id := range ids {
		r[i] = ecs.Component{ID: s.IDs[id], Comp: s.value(id, vals[i])}
	}
	return r
}

func (s *Sess) trace(parts ...any) {
	if s.O.NoTrans {
		return
	}
	h := fnv.New64a()
	fmt.Fprint(h, s.tr, "|")
	for _, p := range parts {
		fmt.Fprint(h, p, ",")
	}
	s.tr = h.Sum64()
}

// Transcript returns the running transcript hash.
func (s *Sess) Transcript() uint64 { return s.tr }

// TranscriptOps returns the transcript hash after each op.
func (s *Sess) TranscriptOps() []uint64 { return s.trOps }

func (s *Sess) filterOf(op *Op) (ecs.Filter, *FSpec) {
	if op.Slot != nil && op.K != "CacheRegister" {
		r := s.regs[*op.Slot]
		cf := &r.cached
		if s.step%2 == 0 {
			// Register returns the CachedFilter by value: a copy of it is as good as the value first returned
			c := r.cached
			cf = &c
		}
		if op.Wrap != nil {
			// a relation filter around the registered filter: its target decides (also when the registered filter
			// is a relation filter itself), its components are those of the registered filter
			inner := r.spec
			if inner.K == "rel" {
				inner = inner.L
			}
			rf := ecs.NewRelationFilter(cf, entOf(*op.Wrap))
			s.Cov.N["relation_filter_over_registered_filter"]++
			return &rf, &FSpec{K: "rel", L: inner, T: op.Wrap}
		}
		return cf, r.spec
	}
	return op.F.Build(s.IDs, entOf), op.F
}

func tgt(op *Op) []ecs.Entity {
	if op.T == nil {
		return nil
	}
	return []ecs.Entity{entOf(*op.T)}
}

func (s *Sess) builder(op *Op) *ecs.Builder {
	// two of three ops re-use a Builder made earlier for the same component list, values and relation: a Builder
	// is documented as a re-usable object
	key := fmt.Sprint(op.Add, "|", op.Vals, "|", op.Rel != nil)
	if op.Rel != nil {
		key += fmt.Sprint(*op.Rel)
	}
	// (rejected calls may go through a Builder that worked before as well; Builders made for them are not kept)
	if s.step%3 != 0 || op.Ill != "" {
		if b, ok := s.builders[key]; ok {
			s.Cov.N["builder_reused"]++
			return b
		}
	}
	b := s.newBuilder(op)
	if op.Ill == "" {
		if s.builders == nil || len(s.builders) > 40 {
			s.builders = map[string]*ecs.Builder{}
		}
		s.builders[key] = b
	}
	return b
}

func (s *Sess) newBuilder(op *Op) *ecs.Builder {
	var b *ecs.Builder
	if op.Vals != nil {
		b = ecs.NewBuilderWith(s.W, s.comps(op.Add, op.Vals)...)
	} else {
		b = ecs.NewBuilder(s.W, s.ids(op.Add)...)
	}
	if op.Rel != nil {
		b = b.WithRelation(s.IDs[*op.Rel])
	}
	return b
}

// consume iterates a returned query per traversal mode.
func (s *Sess) consume(q *ecs.Query, op *Op, out *Outcome, visit func(q *ecs.Query)) {
	out.QCount = -1
	if f := s.onQueryOpen; f != nil {
		s.onQueryOpen = nil
		f()
	}
	if op.Probe != "" {
		s.probeQuery(q, op.Probe)
	}
	get := func() {
		e := q.Entity()
		out.QEnts = append(out.QEnts, e)
		if visit != nil {
			visit(q)
		}
	}
	// in a third of the cases a second, ordinary query is open while the returned query is consumed and closed,
	// and is closed after it (reading while a batch result is inspected is legal; only the order of closing differs)
	if op.Trav/20 == 1 && s.open == 0 && op.Probe == "" {
		rq := s.W.Query(ecs.All())
		rqOpen := true
		if (op.Trav/10)%2 == 0 {
			rqOpen = rq.Next()
		}
		s.open++
		s.Cov.N["returned_query_closed_while_another_query_open"]++
		defer func() {
			s.open--
			if rqOpen && s.W.IsLocked() {
				rq.Close()
			}
		}()
	}
	switch op.Trav % 5 {
	case 0:
		s.qcalls++
		for q.Next() {
			get()
			s.qcalls++
		}
		out.QFull = true
	case 1:
		out.QCount = q.Count()
		at := []ecs.Entity{}
		for i := 0; i < out.QCount; i++ {
			at = append(at, q.EntityAt(i))
		}
		s.qcalls++
		for q.Next() {
			get()
			s.qcalls++
		}
		out.QFull = true
		if len(at) != len(out.QEnts) {
			s.fail("query.count", "returned query: Count()=%d but %d entities iterated", out.QCount, len(out.QEnts))
		} else {
			for i := range at {
				if at[i] != out.QEnts[i] {
					s.fail("query.entityat", "returned query: EntityAt(%d)=%v but %d-th iterated is %v", i, at[i], i, out.QEnts[i])
					break
				}
			}
		}
	case 2:
		out.QCount = q.Count()
		s.qcalls++
		q.Close()
	case 3:
		k := op.Trav / 5 % 4
		closed := false
		for i := 0; i < k; i++ {
			s.qcalls++
			if !q.Next() {
				closed = true
				out.QFull = true
				break
			}
			get()
		}
		if !closed {
			s.qcalls++
			q.Close()
		}
	case 4:
		// Step through the returned query and compare each landing position with EntityAt
		step := 1 + op.Trav/5%3
		out.QCount = q.Count()
		at := make([]ecs.Entity, out.QCount)
		for i := range at {
			at[i] = q.EntityAt(i)
		}
		pos := -1
		for {
			s.qcalls++
			pos += step
			ok := q.Step(step)
			if pos >= out.QCount {
				if ok {
					s.fail("query.step", "returned query: Step to position %d returned true, Count()=%d", pos, out.QCount)
					q.Close()
				}
				break
			}
			if !ok {
				s.fail("query.step", "returned query: Step to position %d of %d returned false", pos, out.QCount)
				break
			}
			get()
			if e := q.Entity(); e != at[pos] {
				s.fail("query.step", "returned query: after stepping to position %d the query is at %v, EntityAt(%d)=%v", pos, e, pos, at[pos])
				q.Close()
				break
			}
		}
		if step == 1 && !s.Failed() {
			out.QFull = true
		}
	}
}

// Do logs and executes one operation, updates the model and runs the monitors.
func (s *Sess) Do(op *Op) *Outcome {
	s.Log = append(s.Log, op)
	s.step = len(s.Log) - 1
	s.rec = s.rec[:0]
	out := &Outcome{Count: -1, QCount: -1}
	var pre map[ecs.Entity]*MEnt
	if s.recOn && op.Ill == "" {
		pre = s.predict(op)
	}
	s.batchAff = pre
	lockedBefore := s.W.IsLocked()
	row, tlen, cap0, ret0 := -1, 0, 0, 0
	if HooksOn && s.O.Track && op.Ill == "" {
		if op.E != nil {
			if _, ok := s.M.Alive[entOf(*op.E)]; ok {
				row, tlen, _ = hookLocate(s.W, entOf(*op.E))
			}
		}
		cap0 = hookCapSum(s.W)
		_, ret0, _ = hookTables(s.W)
	}
	if s.O.Track && op.Ill == "" {
		s.modelCounters(op)
	}
	s.curOp = op
	s.call(op, out)
	s.curOp = nil
	s.batchAff = nil
	s.Cov.Ops[op.K]++
	if HooksOn && s.O.Track && op.Ill == "" && out.Panic == "" {
		if row >= 0 && row < tlen-1 && movesEntity(op.K) {
			s.Cov.N["swap_removes"]++
		}
		if hookCapSum(s.W) > cap0 {
			s.Cov.N["growths"]++
		}
		_, ret1, _ := hookTables(s.W)
		if ret1 > ret0 {
			s.Cov.N["table_retires"]++
		} else if ret1 < ret0 {
			s.Cov.N["table_reuses"]++
		}
	}
	if op.Ill != "" {
		if out.Panic == "" {
			s.fail("illegal.nopanic:"+op.Ill, "illegal call (%s) returned normally", op.Ill)
		}
		if s.W.IsLocked() != lockedBefore {
			s.fail("illegal.lock:"+op.Ill, "illegal call (%s) changed the lock state", op.Ill)
		}
		s.trace("ill", out.Panic != "")
		s.trOps = append(s.trOps, s.tr)
		return out
	}
	if out.Panic != "" {
		s.fail("panic:"+op.K, "legal call panicked: %s", out.Panic)
		return out
	}
	exp := s.apply(op, out)
	if s.Failed() {
		return out
	}
	s.trace(op.K, out.Ents, out.Count, out.QEnts, out.QCount)
	if s.recOn {
		s.checkEvents(op, exp)
		if s.O.KeepEv {
			s.RecAll = append(s.RecAll, append([]RecEvent{}, s.rec...))
		}
	}
	s.monitors(op)
	s.trOps = append(s.trOps, s.tr)
	return out
}

func (s *Sess) monitors(op *Op) {
	if s.Failed() {
		return
	}
	if s.O.Inv && HooksOn {
		if err := hookInv(s.W); err != nil {
			s.fail("inv:"+invKey(err.Error()), "%v", err)
			return
		}
		s.Cov.N["inv_walks"]++
	}
	if s.O.Model {
		s.CheckWorld()
	}
	if s.Failed() {
		return
	}
	if s.O.Cache {
		s.CheckCache()
	}
	if s.Failed() {
		return
	}
	if s.O.Targets {
		s.CheckTargets()
	}
}

func invKey(msg string) string {
	if i := strings.IndexByte(msg, ' '); i > 0 {
		return msg[:i]
	}
	return msg
}

// call performs the library call for op under recover.
func (s *Sess) call(op *Op, out *Outcome) {
	defer func() {
		if r := recover(); r != nil {
			if re, ok := r.(runtime.Error); ok {
				out.Panic = "runtime error: " + re.Error() + "\n" + string(debug.Stack())
			} else {
				out.Panic = fmt.Sprint(r)
			}
			if out.Panic == "" {
				out.Panic = "(empty panic)"
			}
		}
	}()
	w := s.W
	if op.GK != "" {
		s.callGeneric(op, out)
		return
	}
	switch op.K {
	case "NewEntity":
		out.Ents = []ecs.Entity{w.NewEntity(s.ids(op.Add)...)}
	case "NewEntityWith":
		out.Ents = []ecs.Entity{w.NewEntityWith(s.comps(op.Add, op.Vals)...)}
	case "BuilderNew":
		out.Ents = []ecs.Entity{s.builder(op).New(tgt(op)...)}
	case "RemoveEntity":
		w.RemoveEntity(entOf(*op.E))
	case "Add":
		w.Add(entOf(*op.E), s.ids(op.Add)...)
	case "Remove":
		w.Remove(entOf(*op.E), s.ids(op.Rem)...)
	case "Exchange":
		w.Exchange(entOf(*op.E), s.ids(op.Add), s.ids(op.Rem))
	case "Assign":
		w.Assign(entOf(*op.E), s.comps(op.Add, op.Vals)...)
	case "Set":
		p := w.Set(entOf(*op.E), s.IDs[op.ID], s.value(op.ID, op.Val))
		if p != w.Get(entOf(*op.E), s.IDs[op.ID]) {
			s.fail("set.pointer", "Set returned a pointer different from Get")
		}
	case "WritePtr":
		e := entOf(*op.E)
		n := s.M.Types[op.ID].Size
		if op.Alt {
			m := ecs.All(s.IDs[op.ID])
			q := w.Query(&m)
			found := false
			for q.Next() {
				if q.Entity() == e {
					if n > 0 {
						copy(unsafe.Slice((*byte)(q.Get(s.IDs[op.ID])), n), s.M.Types[op.ID].Pat(op.Val))
					}
					found = true
					q.Close()
					break
				}
			}
			if !found {
				s.fail("query.miss", "query All(%d) did not visit %v which has the component", op.ID, e)
			}
		} else if n > 0 {
			copy(unsafe.Slice((*byte)(w.Get(e, s.IDs[op.ID])), n), s.M.Types[op.ID].Pat(op.Val))
		}
	case "RelSet":
		w.Relations().Set(entOf(*op.E), s.IDs[*op.Rel], entOf(*op.T))
	case "RelGet":
		if op.Alt {
			w.Relations().GetUnchecked(entOf(*op.E), s.IDs[*op.Rel])
		} else {
			w.Relations().Get(entOf(*op.E), s.IDs[*op.Rel])
		}
	case "RelExchange":
		w.Relations().Exchange(entOf(*op.E), s.ids(op.Add), s.ids(op.Rem), s.IDs[*op.Rel], entOf(*op.T))
	case "BuilderAdd":
		s.builder(op).Add(entOf(*op.E), tgt(op)...)
	case "NewBatch":
		if op.Q {
			q := s.builder(op).NewBatchQ(op.N, tgt(op)...)
			s.consume(&q, op, out, s.visitNew(op))
		} else {
			s.builder(op).NewBatch(op.N, tgt(op)...)
		}
	case "BatchAdd", "BatchRemove", "BatchExchange":
		f, _ := s.filterOf(op)
		add, rem := s.ids(op.Add), s.ids(op.Rem)
		if op.Q {
			var q ecs.Query
			switch op.K {
			case "BatchAdd":
				q = w.Batch().AddQ(f, add...)
			case "BatchRemove":
				q = w.Batch().RemoveQ(f, rem...)
			default:
				q = w.Batch().ExchangeQ(f, add, rem)
			}
			s.consume(&q, op, out, s.visitNew(op))
		} else {
			switch op.K {
			case "BatchAdd":
				out.Count = w.Batch().Add(f, add...)
			case "BatchRemove":
				out.Count = w.Batch().Remove(f, rem...)
			default:
				out.Count = w.Batch().Exchange(f, add, rem)
			}
		}
	case "BatchSetRel":
		f, _ := s.filterOf(op)
		rel, t := s.IDs[*op.Rel], entOf(*op.T)
		if op.Q {
			var q ecs.Query
			if op.Alt {
				q = w.Relations().SetBatchQ(f, rel, t)
			} else {
				q = w.Batch().SetRelationQ(f, rel, t)
			}
			s.consume(&q, op, out, s.visitNew(op))
		} else if op.Alt {
			out.Count = w.Relations().SetBatch(f, rel, t)
		} else {
			out.Count = w.Batch().SetRelation(f, rel, t)
		}
	case "RelExchangeBatch":
		f, _ := s.filterOf(op)
		rel, t := s.IDs[*op.Rel], entOf(*op.T)
		if op.Q {
			q := w.Relations().ExchangeBatchQ(f, s.ids(op.Add), s.ids(op.Rem), rel, t)
			s.consume(&q, op, out, s.visitNew(op))
		} else {
			out.Count = w.Relations().ExchangeBatch(f, s.ids(op.Add), s.ids(op.Rem), rel, t)
		}
	case "BatchRemoveEntities":
		f, _ := s.filterOf(op)
		out.Count = w.Batch().RemoveEntities(f)
	case "Reset":
		w.Reset()
	case "CacheRegister":
		f := op.F.Build(s.IDs, entOf)
		c := w.Cache().Register(f)
		s.regs[*op.Slot] = &regEntry{spec: op.F, orig: f, cached: c}
	case "CacheUnregister":
		r := s.regs[*op.Slot]
		f := w.Cache().Unregister(&r.cached)
		if !sameFilter(f, r.orig) {
			s.fail("cache.unregister", "Unregister returned %v, not the original filter %v", f, r.orig)
		}
		s.stale = append(s.stale, r.cached)
		delete(s.regs, *op.Slot)
	case "CacheReplace":
		// unregister one filter and register another one back to back, with no cache lookup in between
		r := s.regs[*op.Slot]
		f := w.Cache().Unregister(&r.cached)
		if !sameFilter(f, r.orig) {
			s.fail("cache.unregister", "Unregister returned %v, not the original filter %v", f, r.orig)
		}
		s.stale = append(s.stale, r.cached)
		delete(s.regs, *op.Slot)
		nf := op.F.Build(s.IDs, entOf)
		c := w.Cache().Register(nf)
		s.regs[op.ID] = &regEntry{spec: op.F, orig: nf, cached: c}
	case "CacheUnregisterStale":
		w.Cache().Unregister(&s.stale[op.ID%len(s.stale)])
	case "CacheUseStale":
		// every way of using a handle whose registration was dropped: no such filter, so the call must panic
		st := &s.stale[op.ID%len(s.stale)]
		switch op.Trav % 6 {
		case 0:
			q := w.Query(st)
			q.Close()
		case 1:
			w.Batch().RemoveEntities(st)
		case 2:
			w.Batch().Add(st, s.IDs[op.Add[0]])
		case 3:
			w.Batch().Remove(st, s.IDs[op.Add[0]])
		case 4:
			q := w.Batch().AddQ(st, s.IDs[op.Add[0]])
			q.Close()
		default:
			w.Batch().SetRelation(st, s.IDs[op.Add[0]], ecs.Entity{})
		}
	case "RegisterType":
		n := len(s.IDs)
		s.registerType(op.Key)
		if len(s.IDs) > n && op.Key[0] != 'N' && !op.Alt {
			s.Cfg.Used = append(append([]int{}, s.Cfg.Used...), n)
		}
	case "QueryCheck":
		f, spec := s.filterOf(op)
		s.QueryCheck(f, spec, op.Trav)
		if op.Slot != nil && op.Trav%3 == 1 && !s.Failed() {
			s.queryAcrossCacheOps(*op.Slot, f, spec, op.Trav)
		}
		if op.Slot != nil && op.Wrap == nil && op.Trav%5 == 2 && !s.Failed() {
			// a relation filter whose component filter is the registered filter: selects what the relation filter
			// over the original selects
			t := ecs.Entity{}
			if al := s.M.AliveSorted(); len(al) > 0 && op.Trav%2 == 0 {
				t = al[(op.Trav/5)%len(al)]
			}
			cf := s.regs[*op.Slot].cached
			rf := ecs.NewRelationFilter(&cf, t)
			inner := spec
			if inner.K == "rel" {
				inner = inner.L // (nested relation filters: the outer target decides)
			}
			s.QueryCheck(&rf, &FSpec{K: "rel", L: inner, T: entP(t)}, op.Trav/5)
			s.Cov.N["relation_filter_over_registered_filter"]++
		}
	case "GC":
		runtime.GC()
	case "SetListener":
		s.installListener(op.Lsn)
	case "Get":
		if op.Alt {
			w.GetUnchecked(entOf(*op.E), s.IDs[op.ID])
		} else {
			w.Get(entOf(*op.E), s.IDs[op.ID])
		}
	case "MaskOf":
		if op.Alt {
			w.Ids(entOf(*op.E))
		} else {
			w.Mask(entOf(*op.E))
		}
	case "Has":
		if op.Alt {
			w.HasUnchecked(entOf(*op.E), s.IDs[op.ID])
		} else {
			w.Has(entOf(*op.E), s.IDs[op.ID])
		}
	case "QueryRelation":
		// position a query on entity E, then ask for the relation of component ID
		q := w.Query(ecs.All())
		defer func() {
			if w.IsLocked() {
				q.Close()
			}
		}()
		for q.Next() {
			if q.Entity() == entOf(*op.E) {
				q.Relation(s.IDs[op.ID])
				return
			}
		}
		s.fail("query.miss", "query over everything did not visit %v", entOf(*op.E))
	case "EntityAt", "Step":
		f, _ := s.filterOf(op)
		q := w.Query(f)
		defer func() {
			if w.IsLocked() {
				q.Close()
			}
		}()
		idx := op.ID
		if op.Alt {
			idx = q.Count() + op.ID
		}
		if op.K == "EntityAt" {
			q.EntityAt(idx)
		} else {
			q.Step(idx)
		}
	case "CacheRegisterCached":
		r := s.regs[*op.Slot]
		w.Cache().Register(&r.cached)
	case "CacheUnregisterTwice":
		r := s.regs[*op.Slot]
		c := w.Cache().Register(r.orig)
		w.Cache().Unregister(&c)
		w.Cache().Unregister(&c)
	case "RegisterOverLimit":
		if op.Alt {
			ecs.ResourceTypeID(w, TypeOfKey(op.Key))
		} else {
			ecs.TypeID(w, TypeOfKey(op.Key))
		}
	case "ResRegister":
		s.resRegister(op.Key)
	case "ResAdd":
		s.resAdd(op)
	case "ResRemove":
		s.resRemove(op)
	case "ResHas":
		w.Resources().Has(s.ResIDs[op.ID])
	default:
		if !s.callExtra(op, out) {
			panic("harness: unknown op kind " + op.K)
		}
	}
}

func sameFilter(a, b ecs.Filter) bool {
	va, vb := reflect.ValueOf(a), reflect.ValueOf(b)
	if va.Type() != vb.Type() {
		return false
	}
	if va.Kind() == reflect.Ptr {
		return va.Pointer() == vb.Pointer()
	}
	return reflect.DeepEqual(a, b)
}

// visitNew returns a visitor that checks, at each position of a returned query,
// that the position agrees with the world and the new components are accessible.
func (s *Sess) visitNew(op *Op) func(q *ecs.Query) {
	return func(q *ecs.Query) {
		e := q.Entity()
		for _, id := range op.Add {
			if !q.Has(s.IDs[id]) {
				s.fail("bq.has", "returned query at %v: Has(%d) false for a component just added", e, id)
				return
			}
			p := q.Get(s.IDs[id])
			if p == nil && true {
				s.fail("bq.get", "returned query at %v: Get(%d) nil for a component just added", e, id)
				return
			}
			if wp := s.W.Get(e, s.IDs[id]); wp != p {
				s.fail("bq.getptr", "returned query at %v: Get(%d) differs from World.Get", e, id)
				return
			}
			if op.Vals != nil && s.M.Types[id].Size > 0 {
				var want []byte
				for i, a := range op.Add {
					if a == id {
						want = s.M.Types[id].Pat(op.Vals[i])
					}
				}
				if got := unsafe.Slice((*byte)(p), len(want)); !bytes.Equal(got, want) {
					s.fail("bq.value", "returned query at %v: component %d holds %x, want %x", e, id, got, want)
					return
				}
			}
		}
		for _, id := range op.Rem {
			if q.Has(s.IDs[id]) {
				s.fail("bq.has", "returned query at %v: Has(%d) true for a component just removed", e, id)
				return
			}
		}
		m := q.Mask()
		wm := s.W.Mask(e)
		if m != wm {
			s.fail("bq.mask", "returned query at %v: Mask %v differs from World.Mask %v", e, s.maskNums(&m), s.maskNums(&wm))
			return
		}
		if op.Rel != nil && op.T != nil {
			if got := q.Relation(s.IDs[*op.Rel]); got != entOf(*op.T) {
				s.fail("bq.relation", "returned query at %v: Relation=%v, want %v", e, got, entOf(*op.T))
			}
		}
	}
}

// batchFilterSpec returns the spec of a batch op's filter.
func (s *Sess) specOf(op *Op) *FSpec {
	if op.Slot != nil {
		spec := s.regs[*op.Slot].spec
		if op.Wrap != nil {
			if spec.K == "rel" {
				spec = spec.L
			}
			return &FSpec{K: "rel", L: spec, T: op.Wrap}
		}
		return spec
	}
	return op.F
}

// predict computes, before the call, the expected after-state of every entity a batch op affects.
func (s *Sess) predict(op *Op) map[ecs.Entity]*MEnt {
	switch op.K {
	case "BatchAdd", "BatchRemove", "BatchExchange", "BatchSetRel", "RelExchangeBatch":
	default:
		return nil
	}
	res := map[ecs.Entity]*MEnt{}
	for _, e := range s.M.Matching(s.specOf(op)) {
		c := s.M.Alive[e].clone()
		tmp := &Model{Types: s.M.Types, Alive: map[ecs.Entity]*MEnt{e: c}}
		if op.K == "BatchSetRel" {
			if _, ch := tmp.SetTarget(e, entOf(*op.T)); !ch {
				continue
			}
		} else {
			t := ecs.Entity{}
			if op.T != nil {
				t = entOf(*op.T)
			}
			tmp.Exchange(e, op.Add, nil, op.Rem, op.K == "RelExchangeBatch", t)
		}
		res[e] = c
	}
	return res
}

// apply updates the model with a successful op; returns the expected events.
func (s *Sess) apply(op *Op, out *Outcome) []ExpEvent {
	m := s.M
	var exp []ExpEvent
	target := ecs.Entity{}
	if op.T != nil {
		target = entOf(*op.T)
		if !target.IsZero() {
			s.targets[target] = true
		}
	}
	newEnt := func(e ecs.Entity) bool {
		if e.IsZero() {
			s.fail("handle.zero", "creation returned the zero entity")
			return false
		}
		if m.Ledger[e] {
			s.fail("handle.reissued", "creation returned handle %v which was already issued in this epoch", e)
			return false
		}
		return true
	}
	switch op.K {
	case "NewEntity", "NewEntityWith", "BuilderNew":
		e := out.Ents[0]
		if !newEnt(e) {
			return nil
		}
		var vals []int
		if op.K != "NewEntity" {
			vals = op.Vals
		}
		exp = append(exp, m.Create(e, op.Add, vals, target))
		out.Created = []ecs.Entity{e}
	case "RemoveEntity":
		exp = append(exp, m.Remove(entOf(*op.E)))
	case "Add", "Remove", "Exchange":
		if ev, ch := m.Exchange(entOf(*op.E), op.Add, nil, op.Rem, false, target); ch {
			exp = append(exp, ev)
		}
	case "Assign":
		if ev, ch := m.Exchange(entOf(*op.E), op.Add, op.Vals, nil, false, target); ch {
			exp = append(exp, ev)
		}
	case "Set", "WritePtr":
		m.Alive[entOf(*op.E)].Comps[op.ID] = m.Types[op.ID].Pat(op.Val)
	case "RelSet":
		if ev, ch := m.SetTarget(entOf(*op.E), target); ch {
			exp = append(exp, ev)
		}
	case "RelGet":
	case "RelExchange":
		if ev, ch := m.Exchange(entOf(*op.E), op.Add, nil, op.Rem, true, target); ch {
			exp = append(exp, ev)
		}
	case "BuilderAdd":
		if ev, ch := m.Exchange(entOf(*op.E), op.Add, op.Vals, nil, op.T != nil, target); ch {
			exp = append(exp, ev)
		}
	case "NewBatch":
		news := s.discoverNew()
		if len(news) != op.N {
			s.fail("batch.create.count", "NewBatch(%d) created %d entities", op.N, len(news))
			return nil
		}
		if op.Q && out.QFull {
			if !sameEntSet(out.QEnts, news) {
				s.fail("bq.entities", "NewBatchQ query iterated %v, new entities are %v", out.QEnts, news)
				return nil
			}
		}
		if op.Q && out.QCount >= 0 && out.QCount != op.N {
			s.fail("bq.count", "NewBatchQ query Count()=%d, want %d", out.QCount, op.N)
		}
		for _, e := range news {
			if !newEnt(e) {
				return nil
			}
			exp = append(exp, m.Create(e, op.Add, op.Vals, target))
		}
		out.Created = news
	case "BatchAdd", "BatchRemove", "BatchExchange", "RelExchangeBatch":
		matched := m.Matching(s.specOf(op))
		affected := []ecs.Entity{}
		for _, e := range matched {
			if ev, ch := m.Exchange(e, op.Add, nil, op.Rem, op.K == "RelExchangeBatch", target); ch {
				exp = append(exp, ev)
				affected = append(affected, e)
			}
		}
		s.checkBatchResult(op, out, len(matched), affected)
	case "BatchSetRel":
		matched := m.Matching(s.specOf(op))
		affected := []ecs.Entity{}
		for _, e := range matched {
			if ev, ch := m.SetTarget(e, target); ch {
				exp = append(exp, ev)
				affected = append(affected, e)
			}
		}
		s.checkBatchResult(op, out, len(matched), affected)
	case "BatchRemoveEntities":
		matched := m.Matching(s.specOf(op))
		for _, e := range matched {
			exp = append(exp, m.Remove(e))
		}
		if out.Count != len(matched) {
			s.fail("batch.count", "%s returned %d, filter matched %d entities", op.K, out.Count, len(matched))
		}
	case "Reset":
		m.Reset()
		s.Res.Reset()
		for t := range s.targets {
			delete(s.targets, t)
		}
	case "ResAdd":
		s.Res.Present[op.ID] = s.keep[len(s.keep)-1]
	case "ResRemove":
		delete(s.Res.Present, op.ID)
	case "ResRegister", "ResHas", "Get", "Has", "QueryRelation", "EntityAt", "Step", "CacheReplace":
	default:
		exp = s.applyExtra(op, out)
	}
	return exp
}

func (s *Sess) checkBatchResult(op *Op, out *Outcome, matched int, affected []ecs.Entity) {
	if !op.Q {
		if len(op.Add) == 0 && len(op.Rem) == 0 && op.K != "BatchSetRel" && out.Count == 0 {
			// an empty exchange affects nothing; the documentation says "number of affected entities"
			return
		}
		if out.Count != matched {
			s.fail("batch.count", "%s returned %d, filter matched %d entities", op.K, out.Count, matched)
		}
		return
	}
	if out.QCount >= 0 && out.QCount != len(affected) {
		s.fail("bq.count", "%s returned query Count()=%d, %d entities affected", op.K, out.QCount, len(affected))
	}
	if out.QFull && !sameEntSet(out.QEnts, affected) {
		s.fail("bq.entities", "%s returned query iterated %v, affected entities are %v", op.K, out.QEnts, affected)
	}
	if !out.QFull {
		in := map[ecs.Entity]bool{}
		for _, e := range affected {
			in[e] = true
		}
		seen := map[ecs.Entity]bool{}
		for _, e := range out.QEnts {
			if !in[e] || seen[e] {
				s.fail("bq.entities", "%s returned query visited %v which is not an affected entity (or twice)", op.K, e)
				return
			}
			seen[e] = true
		}
	}
}

func sameEntSet(a, b []ecs.Entity) bool {
	if len(a) != len(b) {
		return false
	}
	m := map[ecs.Entity]int{}
	for _, e := range a {
		m[e]++
	}
	for _, e := range b {
		m[e]--
	}
	for _, c := range m {
		if c != 0 {
			return false
		}
	}
	return true
}

// discoverNew finds world entities unknown to the model.
func (s *Sess) discoverNew() []ecs.Entity {
	res := []ecs.Entity{}
	q := s.W.Query(ecs.All())
	for q.Next() {
		e := q.Entity()
		if _, ok := s.M.Alive[e]; !ok {
			res = append(res, e)
		}
	}
	return res
}

// installListener installs a listener built from a spec (nil removes it).
func (s *Sess) installListener(spec *LsnSpec) {
	if spec == nil {
		s.lsn = nil
		s.W.SetListener(nil)
		return
	}
	s.lsn = s.buildListener(spec, nil)
	s.W.SetListener(s.lsn)
}

// buildListener builds a listener; sink receives the events (nil: discard).
func (s *Sess) buildListener(spec *LsnSpec, sink func(path []int, w *ecs.World, e ecs.EntityEvent)) ecs.Listener {
	return s.buildListenerPath(spec, sink, nil)
}

func (s *Sess) buildListenerPath(spec *LsnSpec, sink func(path []int, w *ecs.World, e ecs.EntityEvent), path []int) ecs.Listener {
	if spec.Disp != nil {
		subs := []ecs.Listener{}
		for i := range spec.Disp {
			subs = append(subs, s.buildListenerPath(&spec.Disp[i], sink, append(append([]int{}, path...), i)))
		}
		d := listener.NewDispatch(subs...)
		return &d
	}
	p := append([]int{}, path...)
	cb := listener.NewCallback(func(w *ecs.World, e ecs.EntityEvent) {
		if sink != nil {
			sink(p, w, e)
		}
	}, event.Subscription(spec.Subs), s.ids(spec.Comps)...)
	return &cb
}

func sortInts(x []int) []int { sort.Ints(x); return x }

func movesEntity(k string) bool {
	switch k {
	case "RemoveEntity", "Add", "Remove", "Exchange", "Assign", "RelSet", "RelExchange", "BuilderAdd":
		return true
	}
	return false
}

// modelCounters counts critical events that are visible in the model, before the op is applied.
func (s *Sess) modelCounters(op *Op) {
	m := s.M
	n := s.Cov.N
	if op.E != nil {
		me, ok := m.Alive[entOf(*op.E)]
		if !ok {
			return
		}
		valued := 0
		for id := range me.Comps {
			if m.Types[id].Size > 0 {
				valued++
			}
		}
		rel := m.RelOf(me)
		switch op.K {
		case "Add", "Remove", "Exchange", "Assign", "RelExchange", "BuilderAdd", "RelSet":
			if valued >= 2 && (len(op.Add)+len(op.Rem) > 0 || op.K == "RelSet") {
				n["moves_2valued"]++
			}
			if rel >= 0 && !me.Target.IsZero() && op.K != "RelSet" && len(op.Add)+len(op.Rem) > 0 {
				if contains(op.Rem, rel) {
					n["relation_reset"]++
				} else if op.T == nil {
					n["target_retained"]++
				}
			}
		case "RemoveEntity":
			e := entOf(*op.E)
			kids, self := 0, false
			for o, oe := range m.Alive {
				if oe.Target == e && m.RelOf(oe) >= 0 {
					if o == e {
						self = true
					} else {
						kids++
					}
				}
			}
			if self {
				n["death_self_target"]++
			}
			if kids > 0 {
				n["death_with_children"]++
			} else if s.targets[e] {
				n["death_former_target"]++
			}
		}
		return
	}
	if isBatchKind(op.K) && op.K != "NewBatch" {
		masks := map[string]bool{}
		deadT := false
		parentIn := false
		matched := m.Matching(s.specOf(op))
		set := map[ecs.Entity]bool{}
		for _, e := range matched {
			set[e] = true
		}
		for _, e := range matched {
			me := m.Alive[e]
			masks[fmt.Sprint(me.IDs(), me.Target)] = true
			if !me.Target.IsZero() {
				if _, alive := m.Alive[me.Target]; !alive {
					deadT = true
				} else if set[me.Target] {
					parentIn = true
				}
			}
		}
		if len(masks) >= 2 {
			n["batch_2tables"]++
		}
		if deadT {
			n["batch_dead_target_source"]++
		}
		if parentIn && op.K == "BatchRemoveEntities" {
			n["batch_parent_and_children"]++
		}
		if op.Slot != nil {
			n["batch_via_cached"]++
			if deadT || parentIn {
				n["batch_via_cached_retiring"]++
			}
		}
	}
}

// probeQuery makes an out-of-range index call on an open query; it must panic and leave the query usable.
func (s *Sess) probeQuery(q *ecs.Query, probe string) {
	panicked := func(f func()) (p bool) {
		defer func() {
			if recover() != nil {
				p = true
			}
		}()
		f()
		return false
	}
	var ok bool
	switch probe {
	case "entityat-1":
		ok = panicked(func() { q.EntityAt(-1) })
	case "entityatcount":
		ok = panicked(func() { q.EntityAt(q.Count()) })
	case "step0":
		ok = panicked(func() { q.Step(0) })
	case "step-1":
		ok = panicked(func() { q.Step(-1) })
	}
	s.Cov.N["fault:query.index.batch:"+probe]++
	if !ok {
		s.fail("illegal.nopanic:query.index", "%s on a batch-result query did not panic", probe)
	}
}
