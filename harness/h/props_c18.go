package h

import (
	"fmt"
	"unsafe"

	"github.com/mlange-42/arche/ecs"
	"github.com/mlange-42/arche/generic"
)

func init() {
	CaseFns["C18"] = caseC18
	for _, k := range []string{"GetCheck", "GFNew", "GFMod", "GFReg", "GFQuery"} {
		k := k
		extraCalls[k] = func(s *Sess, op *Op, out *Outcome) {
			if k == "GetCheck" && op.E != nil {
				// ID-based form: nothing to compare against but itself
				for _, id := range op.Add {
					s.W.Get(entOf(*op.E), s.IDs[id])
				}
			}
		}
		extraApply[k] = func(s *Sess, op *Op, out *Outcome) []ExpEvent { return nil }
	}
}

// gSingle gives access to generic.Map[T] for a static type.
type gSingle struct {
	set          func(w *ecs.World, e ecs.Entity, v any) unsafe.Pointer
	get          func(w *ecs.World, e ecs.Entity) unsafe.Pointer
	getUnchecked func(w *ecs.World, e ecs.Entity) unsafe.Pointer
	has          func(w *ecs.World, e ecs.Entity) bool
	getRel       func(w *ecs.World, e ecs.Entity) ecs.Entity
	setRel       func(w *ecs.World, e, t ecs.Entity)
	setRelBatch  func(w *ecs.World, f ecs.Filter, t ecs.Entity) int
	setRelBatchQ func(w *ecs.World, f ecs.Filter, t ecs.Entity) gQuery
	id           func(w *ecs.World) ecs.ID
}

type gQuery1of[T any] struct{ q generic.Query1[T] }

func (g *gQuery1of[T]) Q() *ecs.Query         { return &g.q.Query }
func (g *gQuery1of[T]) Get() []unsafe.Pointer { return []unsafe.Pointer{unsafe.Pointer(g.q.Get())} }
func (g *gQuery1of[T]) Relation() ecs.Entity  { return g.q.Relation() }

func mkSingleWith[T any](mp func(w *ecs.World) *generic.Map[T]) gSingle {
	return gSingle{
		set: func(w *ecs.World, e ecs.Entity, v any) unsafe.Pointer {
			m := mp(w)
			return unsafe.Pointer(m.Set(e, v.(*T)))
		},
		get: func(w *ecs.World, e ecs.Entity) unsafe.Pointer {
			m := mp(w)
			return unsafe.Pointer(m.Get(e))
		},
		getUnchecked: func(w *ecs.World, e ecs.Entity) unsafe.Pointer {
			m := mp(w)
			return unsafe.Pointer(m.GetUnchecked(e))
		},
		has: func(w *ecs.World, e ecs.Entity) bool { m := mp(w); return m.Has(e) && m.HasUnchecked(e) },
		getRel: func(w *ecs.World, e ecs.Entity) ecs.Entity {
			m := mp(w)
			if m.GetRelationUnchecked(e) != m.GetRelation(e) {
				panic("GetRelationUnchecked differs from GetRelation")
			}
			return m.GetRelation(e)
		},
		setRel: func(w *ecs.World, e, t ecs.Entity) { m := mp(w); m.SetRelation(e, t) },
		setRelBatch: func(w *ecs.World, f ecs.Filter, t ecs.Entity) int {
			m := mp(w)
			return m.SetRelationBatch(f, t)
		},
		setRelBatchQ: func(w *ecs.World, f ecs.Filter, t ecs.Entity) gQuery {
			m := mp(w)
			return &gQuery1of[T]{m.SetRelationBatchQ(f, t)}
		},
		id: func(w *ecs.World) ecs.ID { m := mp(w); return m.ID() },
	}
}

func mkSingle[T any]() gSingle {
	return mkSingleWith[T](func(w *ecs.World) *generic.Map[T] { m := generic.NewMap[T](w); return &m })
}

// bindSingle returns accessors that all go through ONE generic.Map[T] created now.
func bindSingle[T any](w *ecs.World) gSingle {
	m := generic.NewMap[T](w)
	return mkSingleWith[T](func(*ecs.World) *generic.Map[T] { return &m })
}

var gSingleBinders = map[string]func(w *ecs.World) gSingle{
	"S0": bindSingle[G0], "S1": bindSingle[G1], "S2": bindSingle[G2], "S3": bindSingle[G3], "S4": bindSingle[G4], "S5": bindSingle[G5],
	"S6": bindSingle[G6], "S7": bindSingle[G7], "S8": bindSingle[G8], "S9": bindSingle[G9], "S10": bindSingle[G10], "S11": bindSingle[G11],
	"R0": bindSingle[RelA], "R1": bindSingle[RelB], "R2": bindSingle[RelC],
	"Q0": bindSingle[*G0], "Q1": bindSingle[*G1],
}

var gSingles = map[string]gSingle{
	"S0": mkSingle[G0](), "S1": mkSingle[G1](), "S2": mkSingle[G2](), "S3": mkSingle[G3](), "S4": mkSingle[G4](), "S5": mkSingle[G5](),
	"S6": mkSingle[G6](), "S7": mkSingle[G7](), "S8": mkSingle[G8](), "S9": mkSingle[G9](), "S10": mkSingle[G10](), "S11": mkSingle[G11](),
	"R0": mkSingle[RelA](), "R1": mkSingle[RelB](), "R2": mkSingle[RelC](),
	"Q0": mkSingle[*G0](), "Q1": mkSingle[*G1](),
}

func (s *Sess) keyID(key string) int {
	for i, t := range s.M.Types {
		if t.Key == key {
			return i
		}
	}
	return -1
}

func (s *Sess) gIDs(n int, rel bool) []int {
	r := []int{}
	for _, k := range gTypeKeys(n, rel) {
		r = append(r, s.keyID(k))
	}
	return r
}

func (s *Sess) compsOf(ids []int) []generic.Comp {
	r := []generic.Comp{}
	for _, id := range ids {
		r = append(r, generic.Comp(s.M.Types[id].Type))
	}
	return r
}

// visitG checks, at each position of a generic query, that Get returns the declared types in the declared positions.
func (s *Sess) visitG(q gQuery, ids []int, relT *Ent, inner func(*ecs.Query)) func(*ecs.Query) {
	return func(raw *ecs.Query) {
		ptrs := q.Get()
		if len(ptrs) != len(ids) {
			s.fail("generic.get.arity", "QueryN.Get returned %d pointers for arity %d", len(ptrs), len(ids))
			return
		}
		for i, id := range ids {
			if want := raw.Get(s.IDs[id]); ptrs[i] != want {
				s.fail("generic.query.get", "QueryN.Get position %d (component %d) returns %p, Query.Get(id) returns %p at %v", i, id, ptrs[i], want, raw.Entity())
				return
			}
		}
		s.Cov.N["generic_query_positions"]++
		if relT != nil {
			if got := q.Relation(); got != entOf(*relT) {
				s.fail("generic.query.relation", "QueryN.Relation()=%v, want %v", got, entOf(*relT))
				return
			}
		}
		if inner != nil {
			inner(raw)
		}
	}
}

// gexState is a generic.Exchange object with what it is currently configured with.
type gexState struct {
	x          *generic.Exchange
	add, rem   []int
	rel        int
	configured bool
}

type gfState struct {
	f          gFilter
	n          int
	rel        bool
	include    []int
	optional   []int
	without    []int
	exclusive  bool
	relComp    int
	fixedT     *Ent
	registered bool
	owner      *Sess // the session in whose world the filter is registered (filters shared by several worlds: C19)
	queries    int
}

func (st *gfState) spec(perQuery *Ent) *FSpec {
	inc := minus(st.include, func(x int) bool { return contains(st.optional, x) })
	var base *FSpec
	switch {
	case st.exclusive:
		base = &FSpec{K: "excl", IDs: inc}
	case len(st.without) > 0:
		base = &FSpec{K: "without", IDs: inc, Ex: st.without}
	default:
		base = &FSpec{K: "all", IDs: inc}
	}
	t := st.fixedT
	if perQuery != nil {
		t = perQuery
	}
	if st.relComp >= 0 && t != nil {
		return &FSpec{K: "rel", L: base, T: t}
	}
	return base
}

// callGeneric performs op through the generic API.
func (s *Sess) callGeneric(op *Op, out *Outcome) {
	w := s.W
	t := tgt(op)
	e := ecs.Entity{}
	if op.E != nil {
		e = entOf(*op.E)
	}
	var filt ecs.Filter
	if op.F != nil || op.Slot != nil {
		switch op.K {
		case "GFNew", "GFMod", "GFReg", "GFQuery":
		default:
			filt, _ = s.filterOf(op)
		}
	}
	s.Cov.N["generic:"+op.GK]++
	switch op.GK {
	case "Map.New", "Map.NewBatch", "Map.NewWith", "Map.Add", "Map.AddBatch", "Map.Assign", "Map.Remove", "Map.RemoveBatch", "Map.RemoveEntities", "Map.Get":
		// two out of three ops go through a mapper that lives as long as the session (created at first use)
		var m gMap
		mk := fmt.Sprint(op.GN, op.GRel, op.GWithRel)
		if s.step%3 != 0 {
			if s.gmaps == nil {
				s.gmaps = map[string]gMap{}
			}
			if m = s.gmaps[mk]; m == nil {
				m = gInsts[gKey{op.GN, op.GRel}].NewMap(w, op.GWithRel)
				s.gmaps[mk] = m
			} else {
				s.Cov.N["generic_longlived_mapper_calls"]++
			}
		} else {
			m = gInsts[gKey{op.GN, op.GRel}].NewMap(w, op.GWithRel)
		}
		ids := s.gIDs(op.GN, op.GRel)
		s.Cov.N[fmt.Sprintf("generic_arity_%02d", op.GN)]++
		var vals []any
		if op.Vals != nil {
			for i, id := range op.Add {
				vals = append(vals, s.value(id, op.Vals[i]))
			}
		}
		switch op.GK {
		case "Map.New":
			out.Ents = []ecs.Entity{m.New(t...)}
		case "Map.NewWith":
			out.Ents = []ecs.Entity{m.NewWith(vals, t...)}
		case "Map.NewBatch":
			if op.Q {
				q := m.NewBatchQ(op.N, t...)
				s.consume(q.Q(), op, out, s.visitG(q, ids, op.T, s.visitNew(op)))
			} else {
				m.NewBatch(op.N, t...)
			}
		case "Map.Add":
			m.Add(e, t...)
		case "Map.Assign":
			m.Assign(e, vals)
		case "Map.Remove":
			m.Remove(e, t...)
		case "Map.AddBatch":
			if op.Q {
				q := m.AddBatchQ(filt, t...)
				s.consume(q.Q(), op, out, s.visitG(q, ids, op.T, s.visitNew(op)))
			} else {
				out.Count = m.AddBatch(filt, t...)
			}
		case "Map.RemoveBatch":
			if op.Q {
				q := m.RemoveBatchQ(filt, t...)
				s.consume(q.Q(), op, out, s.visitG(q, nil, nil, s.visitNew(op)))
			} else {
				out.Count = m.RemoveBatch(filt, t...)
			}
		case "Map.RemoveEntities":
			out.Count = m.RemoveEntities(op.Alt)
		case "Map.Get":
			ptrs := m.Get(e)
			if op.Alt {
				ptrs = m.GetUnchecked(e)
			}
			for i, id := range ids {
				if want := w.Get(e, s.IDs[id]); ptrs[i] != want {
					s.fail("generic.map.get", "Map%d.Get position %d (component %d) returns %p, World.Get returns %p", op.GN, i, id, ptrs[i], want)
					return
				}
			}
			s.Cov.N["generic_map_get_positions"] += len(ids)
		}
	case "Single.Set", "Single.Get", "Single.SetRelation", "Single.SetRelationBatch":
		sg := gSingles[op.Key]
		if s.step%3 != 0 {
			if s.gsingles == nil {
				s.gsingles = map[string]*gSingle{}
			}
			if b := s.gsingles[op.Key]; b != nil {
				sg = *b
				s.Cov.N["generic_longlived_map_calls"]++
			} else {
				b := gSingleBinders[op.Key](w)
				s.gsingles[op.Key] = &b
				sg = b
			}
		}
		id := s.keyID(op.Key)
		if sg.id(w) != s.IDs[id] {
			s.fail("generic.map.id", "Map[%s].ID() is not the component's ID", op.Key)
			return
		}
		switch op.GK {
		case "Single.Set":
			p := sg.set(w, e, s.value(op.ID, op.Val))
			if p != w.Get(e, s.IDs[id]) {
				s.fail("generic.map.set", "Map.Set returned a pointer different from World.Get")
			}
		case "Single.Get":
			has := w.Has(e, s.IDs[id])
			if sg.has(w, e) != has || sg.get(w, e) != w.Get(e, s.IDs[id]) || sg.getUnchecked(w, e) != w.Get(e, s.IDs[id]) {
				s.fail("generic.map.get", "Map[%s].Get/Has disagree with World.Get/Has for %v", op.Key, e)
				return
			}
			if s.M.Types[id].Rel && has {
				if sg.getRel(w, e) != w.Relations().Get(e, s.IDs[id]) {
					s.fail("generic.map.relation", "Map[%s].GetRelation disagrees with Relations.Get", op.Key)
				}
			}
		case "Single.SetRelation":
			sg.setRel(w, e, t[0])
		case "Single.SetRelationBatch":
			if op.Q {
				q := sg.setRelBatchQ(w, filt, t[0])
				s.consume(q.Q(), op, out, s.visitG(q, []int{id}, op.T, s.visitNew(op)))
			} else {
				out.Count = sg.setRelBatch(w, filt, t[0])
			}
		}
	case "Ex.NewEntity", "Ex.Add", "Ex.Remove", "Ex.Exchange", "Ex.ExchangeBatch":
		// Adds/Removes *set* the lists, so an Exchange object can be re-configured; two out of three ops re-use one
		// of two long-lived objects (whatever they were configured with before), the others take a new one
		var x *generic.Exchange
		var xs *gexState
		if s.step%3 != 0 && !op.Alt {
			if s.gex[op.Trav%2] == nil {
				s.gex[op.Trav%2] = &gexState{x: generic.NewExchange(w), rel: -1}
			} else {
				s.Cov.N["generic_longlived_exchange_calls"]++
			}
			xs = s.gex[op.Trav%2]
		} else {
			xs = &gexState{x: generic.NewExchange(w), rel: -1}
		}
		x = xs.x
		// vary the order of the builder calls; a call that would only repeat what the object is already configured
		// with is left out in two of three cases (the configuration is what counts, not how often it was stated)
		skip := func(same bool) bool { return same && xs.configured && (s.step/3)%3 != 0 }
		steps := []func(){
			func() {
				if len(op.Add) == 0 && !xs.configured && s.step%2 == 0 {
					// nothing to add and a new object: Adds is not called at all
					s.Cov.N["generic_exchange_without_adds"]++
					return
				}
				if !skip(eqInts(xs.add, op.Add)) {
					x.Adds(s.compsOf(op.Add)...)
				} else {
					s.Cov.N["generic_exchange_calls_left_out"]++
				}
			},
			func() {
				if !skip(eqInts(xs.rem, op.Rem)) {
					x.Removes(s.compsOf(op.Rem)...)
				} else {
					s.Cov.N["generic_exchange_calls_left_out"]++
				}
			},
			func() {
				if op.Rel != nil {
					if !skip(xs.rel == *op.Rel) {
						x.WithRelation(generic.Comp(s.M.Types[*op.Rel].Type))
					} else {
						s.Cov.N["generic_exchange_calls_left_out"]++
					}
				}
			},
		}
		perm := [][]int{{0, 1, 2}, {2, 0, 1}, {1, 2, 0}, {0, 2, 1}, {2, 1, 0}, {1, 0, 2}}[op.Trav%6]
		for _, i := range perm {
			steps[i]()
		}
		xs.add, xs.rem, xs.configured = append([]int{}, op.Add...), append([]int{}, op.Rem...), true
		if op.Rel != nil {
			xs.rel = *op.Rel
		}
		switch op.GK {
		case "Ex.NewEntity":
			out.Ents = []ecs.Entity{x.NewEntity(t...)}
		case "Ex.Add":
			x.Add(e, t...)
		case "Ex.Remove":
			x.Remove(e, t...)
		case "Ex.Exchange":
			x.Exchange(e, t...)
		case "Ex.ExchangeBatch":
			out.Count = x.ExchangeBatch(filt, t...)
		}
	case "GF.New":
		st := &gfState{f: gInsts[gKey{op.GN, op.GRel}].NewFilter(), n: op.GN, rel: op.GRel, include: s.gIDs(op.GN, op.GRel), relComp: -1}
		s.gfs[*op.Slot] = st
	case "GF.Mod":
		st := s.gfs[*op.Slot]
		cs := s.compsOf(op.Add)
		switch op.Key {
		case "With":
			st.f.With(cs...)
			st.include = append(st.include, op.Add...)
		case "Without":
			st.f.Without(cs...)
			st.without = append(st.without, op.Add...)
		case "Optional":
			st.f.Optional(cs...)
			st.optional = append(st.optional, op.Add...)
		case "Exclusive":
			st.f.Exclusive()
			st.exclusive = true
		case "WithRelation":
			st.f.WithRelation(generic.Comp(s.M.Types[*op.Rel].Type), t...)
			st.relComp = *op.Rel
			if op.T != nil {
				st.fixedT = op.T
			}
		}
	case "GF.Reg":
		st := s.gfs[*op.Slot]
		if op.Alt {
			st.f.Unregister(w)
			st.registered = false
			st.owner = nil
		} else {
			st.f.Register(w)
			st.registered = true
			st.owner = s
		}
	case "GF.Query":
		st := s.gfs[*op.Slot]
		spec := st.spec(op.T)
		q := st.f.Query(w, t...)
		ids := s.gIDs(st.n, st.rel)
		var relT *Ent
		if spec.K == "rel" {
			relT = spec.T
		}
		got := []ecs.Entity{}
		raw := q.Q()
		visit := s.visitG(q, ids, relT, nil)
		for raw.Next() {
			got = append(got, raw.Entity())
			visit(raw)
			if s.Failed() {
				raw.Close()
				return
			}
		}
		st.queries++
		if !s.checkResult("generic.filter", spec, got) {
			return
		}
		core := s.iterate(spec.Build(s.IDs, entOf))
		if !sameEntSet(core, got) {
			s.fail("generic.filter.core", "FilterN (state: include %v optional %v without %v exclusive %v relation %d) selects %v, the equivalent core filter %s selects %v", st.include, st.optional, st.without, st.exclusive, st.relComp, short(got), spec, short(core))
			return
		}
		// Filter() hands out the same selection
		f2 := s.iterate(st.f.Filter(w, t...))
		if !sameEntSet(f2, got) {
			s.fail("generic.filter.filter", "FilterN.Filter() selects %v, FilterN.Query() selects %v", short(f2), short(got))
			return
		}
		s.Cov.N["generic_filter_queries"]++
		if st.queries > 1 {
			s.Cov.N["generic_filter_requeries"]++
		}
		if st.registered {
			s.Cov.N["generic_filter_registered_queries"]++
		}
		s.Cov.N["gf_entities"] += len(got)
	default:
		panic("harness: unknown generic op " + op.GK)
	}
}

// ---- generation of generic ops

func (g *Gen) genericMapOp() *Op {
	s, m, R := g.S, g.S.M, g.R
	n := 1 + R.Intn(12)
	rel := R.Chance(0.4)
	ids := s.gIDs(n, rel)
	r0 := s.keyID("R0")
	op := &Op{GN: n, GRel: rel}
	withRel := rel && R.Chance(0.7)
	op.GWithRel = withRel
	foreignT := false
	if !rel && r0 >= 0 && R.Chance(0.3) {
		// a mapper declared with a relation component that is not one of its own components (meant for targets of
		// entities that have the relation already); without targets the declaration must not matter, with a target
		// Add/Remove and their batch forms change the mapper's components and the target of that relation in one go
		op.GWithRel = true
		foreignT = R.Chance(0.6)
		s.Cov.N["generic_mapper_with_foreign_relation"]++
	}
	hasR0 := func(me *MEnt) bool { return m.RelOf(me) == r0 }
	foreign := func(self ecs.Entity, k string) {
		op.K, op.Rel, op.T = k, ip(r0), entP(g.pickTarget(self))
		s.Cov.N["generic_foreign_relation_targets"]++
	}
	hasAny := func(me *MEnt) bool {
		for _, id := range ids {
			if _, ok := me.Comps[id]; ok {
				return true
			}
		}
		return false
	}
	hasAll := func(me *MEnt) bool {
		for _, id := range ids {
			if _, ok := me.Comps[id]; !ok {
				return false
			}
		}
		return true
	}
	setT := func(self ecs.Entity) {
		if withRel && R.Chance(0.8) {
			op.Rel = ip(r0)
			op.T = entP(g.pickTarget(self))
		}
	}
	switch R.Weighted([]int{3, 2, 2, 3, 1, 2, 3, 1, 1, 4}) {
	case 0:
		op.GK, op.K, op.Add = "Map.New", "NewEntity", ids
		if setT(ecs.Entity{}); op.T != nil {
			op.K = "BuilderNew"
		}
	case 1:
		op.GK, op.K, op.Add, op.N, op.Q, op.Trav = "Map.NewBatch", "NewBatch", ids, 1+R.Intn(8), R.Chance(0.5), R.Intn(2)
		setT(ecs.Entity{})
	case 2:
		op.GK, op.K, op.Add, op.Vals = "Map.NewWith", "NewEntityWith", ids, g.vals(n)
		if setT(ecs.Entity{}); op.T != nil {
			op.K = "BuilderNew"
		}
	case 3, 5:
		if foreignT {
			if e, _, ok := g.aliveWhere(func(e ecs.Entity, me *MEnt) bool { return !hasAny(me) && hasR0(me) }); ok {
				op.GK, op.E, op.Add = "Map.Add", entP(e), ids
				foreign(e, "RelExchange")
				return op
			}
		}
		e, me, ok := g.aliveWhere(func(e ecs.Entity, me *MEnt) bool { return !hasAny(me) && (!rel || m.RelOf(me) < 0) })
		if !ok {
			return nil
		}
		_ = me
		op.E, op.Add = entP(e), ids
		if R.Chance(0.5) {
			op.GK, op.K, op.Vals = "Map.Assign", "Assign", g.vals(n)
		} else {
			op.GK, op.K = "Map.Add", "Add"
			if setT(e); op.T != nil {
				op.K = "RelExchange"
			}
		}
	case 4:
		ex := append([]int{}, ids...)
		if rel {
			ex = uniq(append(ex, g.relsUsed()...))
		}
		op.GK, op.K, op.Add, op.Q, op.Trav = "Map.AddBatch", "BatchAdd", ids, R.Chance(0.5), R.Intn(2)
		op.F = &FSpec{K: "without", IDs: g.subsetAny(minus(g.nonRels(), func(x int) bool { return contains(ids, x) }), 1), Ex: ex}
		if foreignT {
			op.F = &FSpec{K: "without", IDs: []int{r0}, Ex: append([]int{}, ids...)}
			foreign(ecs.Entity{}, "RelExchangeBatch")
			return op
		}
		if setT(ecs.Entity{}); op.T != nil {
			op.K = "RelExchangeBatch"
		}
	case 6:
		e, _, ok := g.aliveWhere(func(e ecs.Entity, me *MEnt) bool { return hasAll(me) })
		if !ok {
			return nil
		}
		op.GK, op.K, op.E, op.Rem = "Map.Remove", "Remove", entP(e), ids
		if foreignT && hasR0(m.Alive[e]) {
			foreign(e, "RelExchange")
		}
	case 7:
		op.GK, op.K, op.Rem, op.Q, op.Trav = "Map.RemoveBatch", "BatchRemove", ids, R.Chance(0.5), R.Intn(2)
		op.F = &FSpec{K: "all", IDs: append(append([]int{}, ids...), g.subsetAny(g.nonRels(), 1)...)}
		op.F.IDs = uniq(op.F.IDs)
		if foreignT {
			op.F.IDs = uniq(append(op.F.IDs, r0))
			foreign(ecs.Entity{}, "RelExchangeBatch")
		}
	case 8:
		excl := R.Chance(0.5)
		op.GK, op.K, op.Alt = "Map.RemoveEntities", "BatchRemoveEntities", excl
		if excl {
			op.F = &FSpec{K: "excl", IDs: ids}
		} else {
			op.F = &FSpec{K: "all", IDs: ids}
		}
	default:
		e, ok := g.pickAlive()
		if !ok {
			return nil
		}
		op.GK, op.K, op.E, op.Add, op.Alt = "Map.Get", "GetCheck", entP(e), ids, R.Chance(0.3)
	}
	return op
}

func (g *Gen) genericSingleOp() *Op {
	s, m, R := g.S, g.S.M, g.R
	switch R.Weighted([]int{3, 3, 3, 2}) {
	case 0:
		op := g.gen("Set")
		if op == nil {
			return nil
		}
		key := m.Types[op.ID].Key
		if _, ok := gSingles[key]; !ok {
			return nil
		}
		op.GK, op.Key = "Single.Set", key
		return op
	case 1:
		e, ok := g.pickAlive()
		if !ok {
			return nil
		}
		keys := []string{}
		for _, id := range g.used() {
			if _, ok := gSingles[m.Types[id].Key]; ok {
				keys = append(keys, m.Types[id].Key)
			}
		}
		if len(keys) == 0 {
			return nil
		}
		key := Pick(R, keys)
		return &Op{K: "GetCheck", GK: "Single.Get", E: entP(e), Key: key, Add: []int{s.keyID(key)}}
	case 2:
		op := g.gen("RelSet")
		if op == nil {
			return nil
		}
		op.GK, op.Key = "Single.SetRelation", m.Types[*op.Rel].Key
		return op
	default:
		op := g.gen("BatchSetRel")
		if op == nil {
			return nil
		}
		op.GK, op.Key, op.Alt, op.Trav = "Single.SetRelationBatch", m.Types[*op.Rel].Key, false, R.Intn(2)
		return op
	}
}

// genericDeadOp draws a generic call on a removed or recycled entity.
func (g *Gen) genericDeadOp() *Op {
	s, m, R := g.S, g.S.M, g.R
	d, ok := g.dead()
	if !ok {
		return nil
	}
	keys := []int{}
	for _, id := range g.used() {
		if _, ok := gSingles[m.Types[id].Key]; ok {
			keys = append(keys, id)
		}
	}
	if len(keys) == 0 {
		return nil
	}
	id := Pick(R, keys)
	if len(s.gfs) > 0 && R.Chance(0.25) {
		// registering a registered FilterN again / unregistering one that is not registered
		slots := []int{}
		for sl, st := range s.gfs {
			if !st.registered || st.owner == s {
				slots = append(slots, sl)
			}
		}
		if len(slots) > 0 {
			sortInts(slots)
			sl := Pick(R, slots)
			if s.gfs[sl].registered {
				return &Op{K: "GFReg", GK: "GF.Reg", Slot: ip(sl), Ill: "dup.generic.Filter.Register"}
			}
			return &Op{K: "GFReg", GK: "GF.Reg", Slot: ip(sl), Alt: true, Ill: "missing.generic.Filter.Unregister"}
		}
	}
	switch R.Intn(4) {
	case 0:
		return &Op{K: "Set", GK: "Single.Set", E: entP(d), ID: id, Val: g.val(), Key: m.Types[id].Key, Ill: "dead.generic.Map.Set"}
	case 1:
		rels := minus(keys, func(x int) bool { return !m.Types[x].Rel })
		if len(rels) == 0 {
			return nil
		}
		rel := Pick(R, rels)
		return &Op{K: "RelSet", GK: "Single.SetRelation", E: entP(d), Rel: ip(rel), T: entP(ecs.Entity{}), Key: m.Types[rel].Key, Ill: "dead.generic.Map.SetRelation"}
	case 2:
		return &Op{K: "Add", GK: "Ex.Add", E: entP(d), Add: []int{g.anyUsed()}, Trav: R.Intn(6), Ill: "dead.generic.Exchange.Add"}
	default:
		_ = s
		return &Op{K: "Remove", GK: "Ex.Remove", E: entP(d), Rem: []int{g.anyUsed()}, Trav: R.Intn(6), Ill: "dead.generic.Exchange.Remove"}
	}
}

// genericNoRelOp draws a call that hands a target to a mapper declared without a relation: every such call must panic
// and change nothing.
func (g *Gen) genericNoRelOp() *Op {
	s, R := g.S, g.R
	n := 1 + R.Intn(12)
	ids := s.gIDs(n, false)
	op := &Op{GN: n, T: entP(g.pickTarget(ecs.Entity{}))}
	if R.Chance(0.4) {
		// the same for an Exchange object that was never told its relation (Alt: a new object)
		op = &Op{T: op.T, Alt: true, Trav: R.Intn(6)}
		e, ok := g.pickAlive()
		if !ok {
			return nil
		}
		switch R.Intn(5) {
		case 0:
			op.GK, op.K, op.Add = "Ex.NewEntity", "NewEntity", ids
		case 1:
			op.GK, op.K, op.E, op.Add = "Ex.Add", "Add", entP(e), ids
		case 2:
			op.GK, op.K, op.E, op.Rem = "Ex.Remove", "Remove", entP(e), ids
		case 3:
			op.GK, op.K, op.E, op.Add, op.Rem = "Ex.Exchange", "Exchange", entP(e), ids, g.subsetAny(minus(g.nonRels(), func(x int) bool { return contains(ids, x) }), 2)
		default:
			op.GK, op.K, op.Add = "Ex.ExchangeBatch", "BatchExchange", ids
			op.F = &FSpec{K: "all", IDs: g.subsetAny(g.nonRels(), 1)}
		}
		op.Ill = "norel.generic." + op.GK
		return op
	}
	switch R.Intn(7) {
	case 0:
		op.GK, op.K, op.Add = "Map.New", "NewEntity", ids
	case 1:
		op.GK, op.K, op.Add, op.N, op.Q = "Map.NewBatch", "NewBatch", ids, 1+R.Intn(4), R.Chance(0.5)
	case 2:
		op.GK, op.K, op.Add, op.Vals = "Map.NewWith", "NewEntityWith", ids, g.vals(n)
	case 3, 5:
		e, ok := g.pickAlive()
		if !ok {
			return nil
		}
		op.GK, op.K, op.E, op.Add = "Map.Add", "Add", entP(e), ids
		if R.Chance(0.5) {
			op.GK, op.K, op.Add, op.Rem = "Map.Remove", "Remove", nil, ids
		}
	default:
		op.GK, op.K, op.Add, op.Q = "Map.AddBatch", "BatchAdd", ids, R.Chance(0.5)
		op.F = &FSpec{K: "all", IDs: g.subsetAny(g.nonRels(), 1)}
		if R.Chance(0.5) {
			op.GK, op.K, op.Add, op.Rem = "Map.RemoveBatch", "BatchRemove", nil, ids
		}
	}
	op.Ill = "norel.generic." + op.GK
	return op
}

// genericFilterIllOp draws a filter-builder call that the generic API must reject: changing a registered filter in any
// way (its registration would no longer be what it selects), a per-query target for a registered filter or for one with
// a fixed target, Without on an exclusive filter and Exclusive on one that excludes something.
func (g *Gen) genericFilterIllOp() *Op {
	s, R := g.S, g.R
	slots := []int{}
	for sl := range s.gfs {
		slots = append(slots, sl)
	}
	if len(slots) == 0 {
		return nil
	}
	sortInts(slots)
	sl := Pick(R, slots)
	st := s.gfs[sl]
	own := st.registered && st.owner == s
	if st.registered && !own {
		return nil
	}
	if len(g.used()) == 0 {
		return nil
	}
	anyComp := func() []int { return []int{Pick(R, g.used())} }
	switch {
	case own:
		switch R.Intn(6) {
		case 0:
			return &Op{K: "GFMod", GK: "GF.Mod", Slot: ip(sl), Key: "With", Add: anyComp(), Ill: "locked.generic.Filter.With"}
		case 1:
			return &Op{K: "GFMod", GK: "GF.Mod", Slot: ip(sl), Key: "Without", Add: anyComp(), Ill: "locked.generic.Filter.Without"}
		case 2:
			if st.n == 0 {
				return nil
			}
			return &Op{K: "GFMod", GK: "GF.Mod", Slot: ip(sl), Key: "Optional", Add: []int{Pick(R, s.gIDs(st.n, st.rel))}, Ill: "locked.generic.Filter.Optional"}
		case 3:
			return &Op{K: "GFMod", GK: "GF.Mod", Slot: ip(sl), Key: "Exclusive", Ill: "locked.generic.Filter.Exclusive"}
		case 4:
			rs := g.relsUsed()
			if len(rs) == 0 {
				return nil
			}
			return &Op{K: "GFMod", GK: "GF.Mod", Slot: ip(sl), Key: "WithRelation", Rel: ip(Pick(R, rs)), Ill: "locked.generic.Filter.WithRelation"}
		default:
			return &Op{K: "GFQuery", GK: "GF.Query", Slot: ip(sl), T: entP(g.pickTarget(ecs.Entity{})), Ill: "locked.generic.Filter.Query.target"}
		}
	case st.fixedT != nil:
		return &Op{K: "GFQuery", GK: "GF.Query", Slot: ip(sl), T: entP(g.pickTarget(ecs.Entity{})), Ill: "fixed.generic.Filter.Query.target"}
	case st.exclusive:
		return &Op{K: "GFMod", GK: "GF.Mod", Slot: ip(sl), Key: "Without", Add: anyComp(), Ill: "exclusive.generic.Filter.Without"}
	case len(st.without) > 0:
		return &Op{K: "GFMod", GK: "GF.Mod", Slot: ip(sl), Key: "Exclusive", Ill: "excluding.generic.Filter.Exclusive"}
	}
	return nil
}

func (g *Gen) genericExchangeOp() *Op {
	R := g.R
	k := Pick(R, []string{"NewEntity", "BuilderNew", "Add", "Remove", "Exchange", "RelExchange", "BatchExchange", "RelExchangeBatch"})
	op := g.gen(k)
	if op == nil {
		return nil
	}
	op.Trav = R.Intn(6)
	switch k {
	case "NewEntity":
		op.GK = "Ex.NewEntity"
	case "BuilderNew":
		if op.Vals != nil || (op.Rel != nil && op.T == nil) {
			return nil
		}
		op.GK = "Ex.NewEntity"
		if op.T == nil {
			op.K = "NewEntity"
		}
	case "Add":
		op.GK = "Ex.Add"
	case "Remove":
		op.GK = "Ex.Remove"
	case "Exchange":
		op.GK = "Ex.Exchange"
	case "RelExchange":
		switch {
		case len(op.Rem) == 0:
			op.GK = "Ex.Add"
		case len(op.Add) == 0:
			op.GK = "Ex.Remove"
		default:
			op.GK = "Ex.Exchange"
		}
	case "BatchExchange", "RelExchangeBatch":
		op.Q = false
		op.GK = "Ex.ExchangeBatch"
		if len(op.Add)+len(op.Rem) == 0 {
			return nil
		}
	}
	if (op.K == "Add" || op.K == "Remove" || op.K == "Exchange") && len(op.Add)+len(op.Rem) == 0 {
		return nil
	}
	return op
}

func (g *Gen) genericFilterOp() *Op {
	s, R := g.S, g.R
	if len(s.gfs) < 3 && (len(s.gfs) == 0 || R.Chance(0.15)) {
		g.nextSlot++
		n := R.Intn(13)
		rel := n > 0 && R.Chance(0.4)
		return &Op{K: "GFNew", GK: "GF.New", GN: n, GRel: rel, Slot: ip(g.nextSlot)}
	}
	slots := []int{}
	for sl, st := range s.gfs {
		if st.registered && st.owner != s {
			continue // registered in another world: only that world may use it until it is unregistered
		}
		slots = append(slots, sl)
	}
	if len(slots) == 0 {
		return nil
	}
	sortInts(slots)
	sl := Pick(R, slots)
	st := s.gfs[sl]
	others := func() []int {
		return minus(g.used(), func(x int) bool {
			return contains(st.include, x) || contains(st.without, x) || contains(st.optional, x)
		})
	}
	switch R.Weighted([]int{8, 2, 2, 2, 2, 2, 2, 1}) {
	case 0: // query
		op := &Op{K: "GFQuery", GK: "GF.Query", Slot: ip(sl)}
		if st.relComp >= 0 && st.fixedT == nil && !st.registered && R.Chance(0.7) {
			op.T = g.relFilter(st.relComp).T
		}
		return op
	case 1: // With
		if st.registered {
			return nil
		}
		// (a type may have been declared optional before it is included: what counts is the configuration at query time)
		withCands := minus(g.used(), func(x int) bool { return contains(st.include, x) || contains(st.without, x) || g.isRel(x) })
		c := g.subsetAny(withCands, 2)
		if len(c) == 0 {
			return nil
		}
		return &Op{K: "GFMod", GK: "GF.Mod", Slot: ip(sl), Key: "With", Add: c}
	case 2: // Without
		if st.registered || st.exclusive {
			return nil
		}
		c := g.subsetAny(others(), 2)
		if len(c) == 0 {
			return nil
		}
		return &Op{K: "GFMod", GK: "GF.Mod", Slot: ip(sl), Key: "Without", Add: c}
	case 3: // Optional: one of the filter's own type parameters (not the relation), never together with Exclusive
		if st.registered || st.exclusive || st.n < 2 {
			return nil
		}
		own := s.gIDs(st.n, st.rel)
		pool := own
		if R.Chance(0.4) {
			// any type: one added by With earlier, or one that is not (yet) part of the filter at all
			pool = minus(g.used(), func(x int) bool { return contains(st.without, x) })
		}
		cands := minus(pool, func(x int) bool { return contains(st.optional, x) || x == st.relComp || s.M.Types[x].Rel })
		if len(cands) == 0 {
			return nil
		}
		return &Op{K: "GFMod", GK: "GF.Mod", Slot: ip(sl), Key: "Optional", Add: []int{Pick(R, cands)}}
	case 4: // Exclusive
		if st.registered || st.exclusive || len(st.without) > 0 || len(st.optional) > 0 {
			return nil
		}
		return &Op{K: "GFMod", GK: "GF.Mod", Slot: ip(sl), Key: "Exclusive"}
	case 5: // WithRelation
		// (also on a filter that has a relation already: a fixed target can be replaced by another one, and a call
		// without target keeps the one that was fixed before)
		if st.registered || (st.relComp >= 0 && R.Chance(0.4)) {
			return nil
		}
		rels := minus(st.include, func(x int) bool { return !s.M.Types[x].Rel || contains(st.optional, x) })
		if len(rels) == 0 {
			return nil
		}
		op := &Op{K: "GFMod", GK: "GF.Mod", Slot: ip(sl), Key: "WithRelation", Rel: ip(rels[0])}
		if R.Chance(0.5) || st.relComp >= 0 && R.Chance(0.6) {
			op.T = g.relFilter(rels[0]).T
		}
		if st.relComp >= 0 {
			s.Cov.N["generic_filter_retargeted"]++
		}
		return op
	case 6: // register / unregister
		if st.registered {
			return &Op{K: "GFReg", GK: "GF.Reg", Slot: ip(sl), Alt: true}
		}
		return &Op{K: "GFReg", GK: "GF.Reg", Slot: ip(sl)}
	default: // add a relation type to a filter without one, so WithRelation becomes possible
		if st.registered {
			return nil
		}
		for _, x := range st.include {
			if s.M.Types[x].Rel {
				return nil
			}
		}
		rs := minus(g.relsUsed(), func(x int) bool { return contains(st.without, x) })
		if len(rs) == 0 {
			return nil
		}
		return &Op{K: "GFMod", GK: "GF.Mod", Slot: ip(sl), Key: "With", Add: []int{Pick(R, rs)}}
	}
}

func init() {
	extraGen["G.Map"] = func(g *Gen) *Op { return g.genericMapOp() }
	extraGen["G.Single"] = func(g *Gen) *Op { return g.genericSingleOp() }
	extraGen["G.Ex"] = func(g *Gen) *Op { return g.genericExchangeOp() }
	extraGen["G.Filter"] = func(g *Gen) *Op { return g.genericFilterOp() }
}

// c18Cfg registers all static types at shuffled positions among fillers.
func c18Cfg(r *Rng) Cfg {
	// (Q0, Q1: component types that are pointer types, next to their element types S0, S1)
	keys := []string{"S0", "S1", "S2", "S3", "S4", "S5", "S6", "S7", "S8", "S9", "S10", "S11", "R0", "R1", "R2", "Q0", "Q1"}
	total := len(keys) + r.Intn(ecs.MaskTotalBits-len(keys)+1)
	if r.Chance(0.5) {
		total = len(keys) + r.Intn(10)
	}
	all := make([]string, total)
	pos := []int{}
	for i := 0; i < total; i++ {
		pos = append(pos, i)
	}
	Shuffle(r, pos)
	used := []int{}
	for i, k := range keys {
		all[pos[i]] = k
		used = append(used, pos[i])
	}
	base := r.Intn(500)
	for i := range all {
		if all[i] == "" {
			all[i] = fmt.Sprintf("F%d", 4000+base+i)
		}
	}
	sortInts(used)
	return Cfg{CapInc: Pick(r, []int{1, 2, 8, 128}), RelCapInc: Pick(r, []int{0, 1, 128}), Types: all, Used: used}
}

// C18: generic API as a faithful typed view of the ID-based core.
func caseC18(c *Ctx) {
	if c.Mode == "resource" {
		caseC18Resource(c)
		return
	}
	cfg := c18Cfg(c.R)
	p := DefaultProfile()
	p.Steps = 200
	for k := range p.W {
		p.W[k] /= 3
	}
	p.Zero("RegisterType", "Reset", "QueryCheck", "CacheRegister", "CacheUnregister")
	if c.Case%3 == 1 {
		// component types registered while generic filters, mappers and exchanges are already in use
		p.W["RegisterType"] = 3
		p.Late = lateKeys(c.R, 8)
	}
	if c.Case%4 == 2 {
		// the world is reset and its entities are re-loaded from a dump while mappers, exchanges and filters live on
		p.W["DumpKeep"], p.W["ResetLoad"] = 3, 4
	}
	p.W["G.Map"], p.W["G.Single"], p.W["G.Ex"], p.W["G.Filter"] = 60, 15, 25, 45
	gs := NewSess(cfg, Opts{Events: true, Model: c.Case%2 == 0, Track: true, Inv: c.Case%4 == 0})
	gs.gfs = map[int]*gfState{}
	ks := NewSess(cfg, Opts{Events: true})
	g := NewGen(c.R, gs, p)
	for i := 0; i < p.Steps && !gs.Failed(); i++ {
		op := g.Next()
		if i > 20 && c.R.Chance(0.04) {
			// a call that the ID-based API rejects must be rejected by its generic form as well, without effect:
			// a removed or recycled entity handed to Map.Set / Map.SetRelation / Exchange.Add / Exchange.Remove
			if fop := g.genericDeadOp(); fop != nil {
				row := &FaultRow{Name: fop.Ill, Atomic: true}
				ko := *fop
				ko.GK = ""
				if !InjectFault(gs, row, fop) {
					break
				}
				if fop.K == "GFReg" {
					// (no ID-based twin call: the counterpart is Cache.Register of a CachedFilter, a row of C10's table)
					gs.Cov.N["generic_rejected_calls"]++
					continue
				}
				if !InjectFault(ks, row, &ko) {
					gs.fail("generic.twin.failed", "the ID-based equivalent of a rejected %s failed: %s", fop.GK, ks.Viol[0].Msg)
					break
				}
				gs.Cov.N["generic_rejected_calls"]++
				continue
			}
		}
		if i > 20 && c.R.Chance(0.03) {
			if fop := g.genericNoRelOp(); fop != nil {
				if !InjectFault(gs, &FaultRow{Name: fop.Ill, Atomic: true}, fop) {
					break
				}
				gs.Cov.N["generic_rejected_calls"]++
				continue
			}
		}
		if i > 20 && c.R.Chance(0.04) {
			if fop := g.genericFilterIllOp(); fop != nil {
				if !InjectFault(gs, &FaultRow{Name: fop.Ill, Atomic: true}, fop) {
					break
				}
				gs.Cov.N["generic_rejected_calls"]++
				continue
			}
		}
		if i%40 == 5 && !gs.W.IsLocked() {
			// (1) Relation() of a query whose filter was not told its relation must panic; (2) a relation component
			// that is not one of the filter's components must be refused when the query is built; (3) a Filter0 that
			// was given the relation through With reports the targets the core reports. None of it may leave a lock.
			n := c.R.Intn(13)
			f := gInsts[gKey{n, false}].NewFilter()
			if c.R.Chance(0.5) {
				q := f.Query(gs.W)
				q.Q().Close()
			}
			q := f.Query(gs.W)
			if q.Q().Next() {
				if !mustPanic(func() { q.Relation() }) {
					gs.fail("illegal.nopanic:generic.Query.Relation.norelation", "Query%d.Relation() of a filter without relation returned normally", n)
				}
				q.Q().Close()
			}
			if r0 := gs.keyID("R0"); r0 >= 0 && !gs.Failed() {
				relT := generic.Comp(gs.M.Types[r0].Type)
				f.WithRelation(relT)
				if !mustPanic(func() {
					q := f.Query(gs.W)
					q.Q().Close()
				}) {
					gs.fail("illegal.nopanic:generic.Filter.WithRelation.foreign", "a Filter%d whose declared relation is not one of its components was accepted", n)
				}
				f0 := gInsts[gKey{0, false}].NewFilter()
				f0.With(relT)
				f0.WithRelation(relT)
				q0 := f0.Query(gs.W)
				for q0.Q().Next() && !gs.Failed() {
					if got, want := q0.Relation(), gs.W.Relations().Get(q0.Q().Entity(), gs.IDs[r0]); got != want {
						gs.fail("generic.query.relation", "Query0.Relation() is %v, Relations.Get %v", got, want)
						q0.Q().Close()
						break
					}
					gs.Cov.N["generic_query0_relations"]++
				}
			}
			if gs.W.IsLocked() && !gs.Failed() {
				gs.fail("illegal.lock:generic.Filter", "a rejected generic query left the world locked")
			}
			if gs.Failed() {
				break
			}
			gs.Cov.N["generic_rejected_calls"]++
		}
		if i%40 == 25 && !gs.W.IsLocked() {
			// a filter object that was used already is told to treat a plain component as its relation: the next
			// use must be rejected, exactly as for a filter that was never used
			n := 1 + c.R.Intn(12)
			f := gInsts[gKey{n, false}].NewFilter()
			if c.R.Chance(0.7) {
				q := f.Query(gs.W)
				q.Q().Close()
			}
			f.WithRelation(generic.T[G0]())
			if !mustPanic(func() {
				q := f.Query(gs.W)
				q.Q().Close()
			}) {
				gs.fail("illegal.nopanic:generic.Filter.WithRelation.nonrelation", "a FilterN with a non-relation component declared as its relation was accepted")
				break
			}
			if gs.W.IsLocked() {
				gs.fail("illegal.lock:generic.Filter.WithRelation.nonrelation", "the rejected query left the world locked")
				break
			}
			gs.Cov.N["generic_rejected_calls"]++
		}
		outG := gs.Do(op)
		if gs.Failed() {
			break
		}
		evG := evMultiset(gs)
		// the documented ID-based equivalent on the twin world
		ko := *op
		ko.GK = ""
		outK := ks.Do(&ko)
		if ks.Failed() {
			gs.fail("generic.twin.failed", "the ID-based equivalent of %s failed: %s", op.GK, ks.Viol[0].Msg)
			break
		}
		if op.GK == "" {
			continue
		}
		if fmt.Sprint(outG.Ents) != fmt.Sprint(outK.Ents) || !sameEntSet(outG.Created, outK.Created) {
			gs.fail("generic.twin.handles", "%s returned %v %v, its ID-based equivalent %v %v", op.GK, outG.Ents, outG.Created, outK.Ents, outK.Created)
			break
		}
		if outG.Count != outK.Count || (outG.QFull && outK.QFull && !sameEntSet(outG.QEnts, outK.QEnts)) {
			gs.fail("generic.twin.results", "%s returned count %d query %v, its ID-based equivalent %d %v", op.GK, outG.Count, short(outG.QEnts), outK.Count, short(outK.QEnts))
			break
		}
		if evK := evMultiset(ks); fmt.Sprint(evG) != fmt.Sprint(evK) {
			gs.fail("generic.twin.events", "%s emitted %v, its ID-based equivalent %v", op.GK, evG, evK)
			break
		}
		if i%5 == 0 || isBatchKind(op.K) {
			if d := diffSnap(gs.Snapshot(), ks.Snapshot()); d != "" {
				gs.fail("generic.twin.state", "after %s the world differs from the ID-based twin: %s", op.GK, d)
				break
			}
			gs.Cov.N["generic_twin_state_compares"]++
		}
		gs.Cov.N["generic_twin_ops"]++
	}
	n := gs.Cov.N
	finish(c, gs, n["generic_twin_ops"] >= 40 && n["generic_filter_requeries"] >= 1 && n["generic_query_positions"] >= 5)
}
