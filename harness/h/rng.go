package h

// Rng is a small deterministic PRNG (splitmix64). It is independent of the Go
// toolchain, so a (seed, property, case) triple names the same case everywhere.
type Rng struct{ s uint64 }

// NewRng creates a PRNG from several seed parts.
func NewRng(parts ...uint64) *Rng {
	r := &Rng{s: 0x9E3779B97F4A7C15}
	for _, p := range parts {
		r.s ^= p + 0x9E3779B97F4A7C15 + (r.s << 6) + (r.s >> 2)
		r.U64()
	}
	return r
}

// HashStr hashes a string to a seed part.
func HashStr(s string) uint64 {
	var h uint64 = 14695981039346656037
	for i := 0; i < len(s); i++ {
		h ^= uint64(s[i])
		h *= 1099511628211
	}
	return h
}

// U64 returns the next value.
func (r *Rng) U64() uint64 {
	r.s += 0x9E3779B97F4A7C15
	z := r.s
	z = (z ^ (z >> 30)) * 0xBF58476D1CE4E5B9
	z = (z ^ (z >> 27)) * 0x94D049BB133111EB
	return z ^ (z >> 31)
}

// Intn returns a value in [0,n).
func (r *Rng) Intn(n int) int {
	if n <= 0 {
		return 0
	}
	return int(r.U64() % uint64(n))
}

// Bool returns true with probability p (0..1).
func (r *Rng) Chance(p float64) bool {
	return float64(r.U64()>>11)/float64(1<<53) < p
}

// Pick returns a random element.
func Pick[T any](r *Rng, xs []T) T {
	return xs[r.Intn(len(xs))]
}

// Shuffle shuffles in place.
func Shuffle[T any](r *Rng, xs []T) {
	for i := len(xs) - 1; i > 0; i-- {
		j := r.Intn(i + 1)
		xs[i], xs[j] = xs[j], xs[i]
	}
}

// Weighted picks an index according to weights.
func (r *Rng) Weighted(ws []int) int {
	t := 0
	for _, w := range ws {
		t += w
	}
	if t <= 0 {
		return 0
	}
	x := r.Intn(t)
	for i, w := range ws {
		if x < w {
			return i
		}
		x -= w
	}
	return len(ws) - 1
}
