//go:build !verif

package h

import "github.com/mlange-42/arche/ecs"

// HooksOn reports whether the verif hooks are compiled in.
const HooksOn = false

func hookInv(w *ecs.World) error                            { return nil }
func hookShape(w *ecs.World) (string, string)               { return "", "" }
func hookIDValue(id ecs.ID) int                             { return -1 }
func hookTables(w *ecs.World) (int, int, int)               { return 0, 0, 0 }
func hookLocate(w *ecs.World, e ecs.Entity) (int, int, int) { return -1, 0, 0 }
func hookCapSum(w *ecs.World) int                           { return 0 }
func hookLocks(w *ecs.World) int                            { return -1 }
func hookResIDValue(id ecs.ResID) int                       { return -1 }
