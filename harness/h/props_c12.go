package h

import (
	"fmt"

	"github.com/mlange-42/arche/ecs"
	"github.com/mlange-42/arche/ecs/event"
	"github.com/mlange-42/arche/listener"
)

func init() { CaseFns["C12"] = caseC12 }

// selects is the documented selection rule, implemented once in the harness.
func selects(subs int, comps []int, r *RecEvent) bool {
	trigger := subs & int(r.Ev.EventTypes)
	if trigger == 0 {
		return false
	}
	if len(comps) == 0 {
		return true
	}
	in := func(x int) bool { return contains(comps, x) }
	if trigger&(EvRelChanged|EvTargChange) != 0 && ((r.OldRel >= 0 && in(r.OldRel)) || (r.NewRel >= 0 && in(r.NewRel))) {
		return true
	}
	if trigger&(EvCreated|EvCompAdded) != 0 {
		for _, a := range r.Added {
			if in(a) {
				return true
			}
		}
	}
	if trigger&(EvRemoved|EvCompRemove) != 0 {
		for _, a := range r.Removed {
			if in(a) {
				return true
			}
		}
	}
	return false
}

type capture struct {
	s    *Sess
	byOp map[int][]string
	n    int
}

func (c *capture) sink(w *ecs.World, e ecs.EntityEvent) {
	s := c.s
	r := RecEvent{Ev: e, OldRel: -1, NewRel: -1}
	r.Added = s.maskNums(&e.Added)
	r.Removed = s.maskNums(&e.Removed)
	r.AddIDs = sortInts(s.nums(e.AddedIDs))
	r.RemIDs = sortInts(s.nums(e.RemovedIDs))
	if e.OldRelation != nil {
		r.OldRel = s.idNum[*e.OldRelation]
	}
	if e.NewRelation != nil {
		r.NewRel = s.idNum[*e.NewRelation]
	}
	c.byOp[s.step] = append(c.byOp[s.step], evKey(s, &r))
	c.n++
}

type subSpec struct {
	subs    int
	comps   []int
	addedAt int  // op index from which the sub-listener is installed (0: from the start)
	empty   bool // a component restriction that is given but empty (needs a hand-written Listener)
}

// maskListener is a hand-written ecs.Listener whose Components() returns exactly the mask it was given,
// including an empty, non-nil one (listener.NewCallback cannot express that).
type maskListener struct {
	cb   func(w *ecs.World, e ecs.EntityEvent)
	subs event.Subscription
	mask ecs.Mask
}

func (l *maskListener) Notify(w *ecs.World, e ecs.EntityEvent) { l.cb(w, e) }
func (l *maskListener) Subscriptions() event.Subscription      { return l.subs }
func (l *maskListener) Components() *ecs.Mask                  { return &l.mask }

// mkListener builds the listener for a spec.
func mkListener(b *Sess, sp subSpec, sink func(w *ecs.World, e ecs.EntityEvent)) ecs.Listener {
	if sp.empty || (len(sp.comps) > 0 && len(sp.comps)%2 == 0) {
		return &maskListener{cb: sink, subs: event.Subscription(sp.subs), mask: ecs.All(b.ids(sp.comps)...)}
	}
	cb := listener.NewCallback(sink, event.Subscription(sp.subs), b.ids(sp.comps)...)
	return &cb
}

func expectedFor(ref *Sess, sp subSpec) (map[int][]string, int, int) {
	exp := map[int][]string{}
	n, total := 0, 0
	for op, evs := range ref.RecAll {
		for i := range evs {
			total++
			if op >= sp.addedAt && !sp.empty && selects(sp.subs, sp.comps, &evs[i]) {
				exp[op] = append(exp[op], evKey(ref, &evs[i]))
				n++
			}
		}
	}
	return exp, n, total
}

func cmpStreams(ref *Sess, what string, exp, got map[int][]string) bool {
	for op := 0; op < len(ref.Log); op++ {
		if fmt.Sprint(exp[op]) != fmt.Sprint(got[op]) {
			ref.step = op
			ref.fail("subscription.stream", "%s: at op %d (%s) the listener received %v, the selection rule applied to the full stream gives %v", what, op, ref.Log[op].K, got[op], exp[op])
			return false
		}
	}
	return true
}

func compChoices(r *Rng, s *Sess) [][]int {
	rels, non := []int{}, []int{}
	for _, id := range s.Cfg.Used {
		if s.M.Types[id].Rel {
			rels = append(rels, id)
		} else {
			non = append(non, id)
		}
	}
	res := [][]int{nil}
	for _, id := range rels {
		res = append(res, []int{id})
	}
	for _, id := range non {
		res = append(res, []int{id})
	}
	for i := 0; i < 4; i++ {
		sub := []int{}
		for _, id := range s.Cfg.Used {
			if r.Chance(0.35) {
				sub = append(sub, id)
			}
		}
		if len(sub) > 0 {
			res = append(res, sub)
		}
	}
	return res
}

// C12: subscriptions and Dispatch.
func caseC12(c *Ctx) {
	if c.Mode == "nested" {
		caseNested(c, true)
		return
	}
	cfg := GenCfg(c.R, 40)
	if c.Case%3 == 1 {
		// component IDs in every word of the masks (restrictions are masks, and a Dispatch merges them)
		cfg = GenCfg(c.R, 0)
	}
	p := DefaultProfile()
	p.Steps = 100
	p.PEmpty = 0.02
	p.Scale(2, "RelSet", "RelExchange", "BuilderAdd", "BatchSetRel", "RelExchangeBatch", "BatchExchange", "NewBatch", "BatchRemoveEntities", "BuilderNew")
	p.Zero("RegisterType", "QueryCheck", "Reset")
	ref := NewSess(cfg, Opts{Events: true, KeepEv: true, NoTrans: true})
	g := NewGen(c.R, ref, p)
	for i := 0; i < p.Steps && !ref.Failed(); i++ {
		ref.Do(g.Next())
	}
	if ref.Failed() || len(ref.RecAll) != len(ref.Log) {
		finish(c, ref, false)
		return
	}
	choices := compChoices(c.R, ref)
	proper := 0
	if c.Mode == "dispatch" {
		// compositions of 1-5 sub-listeners, some added later, with and without an unrestricted member
		for comp := 0; comp < 12 && !ref.Failed(); comp++ {
			k := 1 + c.R.Intn(5)
			specs := []subSpec{}
			for i := 0; i < k; i++ {
				sp := subSpec{subs: 1 + c.R.Intn(63), comps: Pick(c.R, choices)}
				if comp%2 == 0 && len(sp.comps) == 0 {
					sp.comps = Pick(c.R, choices[1:])
				}
				if c.R.Chance(0.1) {
					sp.comps, sp.empty = nil, true
				}
				// every fourth composition starts as an empty Dispatch: all of its sub-listeners are added later
				if (i > 0 || comp%4 == 1) && (c.R.Chance(0.4) || comp%4 == 1) {
					sp.addedAt = 1 + c.R.Intn(len(ref.Log)-1)
				}
				specs = append(specs, sp)
			}
			b := NewSess(ref.Cfg0, Opts{NoTrans: true})
			caps := make([]*capture, k)
			cbs := make([]ecs.Listener, k)
			initial := []ecs.Listener{}
			for i, sp := range specs {
				caps[i] = &capture{s: b, byOp: map[int][]string{}}
				cbs[i] = mkListener(b, sp, caps[i].sink)
				if sp.addedAt == 0 {
					initial = append(initial, cbs[i])
				}
			}
			d := listener.NewDispatch(initial...)
			var top ecs.Listener = &d
			if comp%4 == 3 {
				outer := listener.NewDispatch(&d)
				top = &outer
			}
			b.W.SetListener(top)
			for opi, op := range ref.Log {
				add := func() {
					for i, sp := range specs {
						if sp.addedAt == opi && opi > 0 {
							d.AddListener(cbs[i])
							if comp%4 == 3 {
								// an outer Dispatch caches the union of its members: rebuild it, as a user would
								outer := listener.NewDispatch(&d)
								b.W.SetListener(&outer)
							}
						}
					}
				}
				if op.Q && op.Ill == "" && comp%3 == 1 {
					// added while the query returned by this very batch call is still open: its events are emitted
					// when the query is closed, so the new member is there in time
					b.onQueryOpen = func() { add(); b.Cov.N["sublistener_added_while_batch_query_open"]++ }
				} else {
					add()
				}
				b.Do(op)
				if b.onQueryOpen != nil {
					b.onQueryOpen = nil
					add()
				}
				if b.Failed() {
					ref.fail("subscription.twin.failed", "twin with a Dispatch listener failed: %s", b.Viol[0].Msg)
					break
				}
			}
			for i, sp := range specs {
				if ref.Failed() {
					break
				}
				exp, n, total := expectedFor(ref, sp)
				if !cmpStreams(ref, fmt.Sprintf("Dispatch sub-listener %d of %d (types %06b, components %v, added at op %d)", i, k, sp.subs, sp.comps, sp.addedAt), exp, caps[i].byOp) {
					break
				}
				if n > 0 && n < total {
					proper++
					c.NonTrivial(HashOps(ref.Log) ^ uint64(sp.subs)<<8 ^ HashStr(fmt.Sprint(sp.comps, sp.addedAt, "d")))
				}
				ref.Cov.N["dispatch_sublisteners_compared"]++
				c.AddEvaluations(1)
			}
			ref.Cov.N["dispatch_compositions"]++
		}
	} else {
		// all 64 subscription masks x 2 component restrictions, each installed alone
		for subs := 0; subs < 64 && !ref.Failed(); subs++ {
			for k := 0; k < 2 && !ref.Failed(); k++ {
				sp := subSpec{subs: subs}
				if k == 1 {
					sp.comps = Pick(c.R, choices[1:])
				} else if c.R.Chance(0.3) {
					sp.comps = Pick(c.R, choices)
				}
				if k == 1 && subs%8 == 5 {
					sp.comps, sp.empty = nil, true
				}
				b := NewSess(ref.Cfg0, Opts{NoTrans: true})
				cp := &capture{s: b, byOp: map[int][]string{}}
				b.W.SetListener(mkListener(b, sp, cp.sink))
				for _, op := range ref.Log {
					b.Do(op)
					if b.Failed() {
						ref.fail("subscription.twin.failed", "twin with a restricted listener failed: %s", b.Viol[0].Msg)
						break
					}
				}
				if ref.Failed() {
					break
				}
				exp, n, total := expectedFor(ref, sp)
				if !cmpStreams(ref, fmt.Sprintf("listener subscribed to types %06b, components %v (given but empty: %v)", sp.subs, sp.comps, sp.empty), exp, cp.byOp) {
					break
				}
				if n > 0 && n < total {
					proper++
					c.NonTrivial(HashOps(ref.Log) ^ uint64(sp.subs)<<8 ^ HashStr(fmt.Sprint(sp.comps)))
				}
				ref.Cov.N["restricted_listeners_compared"]++
				c.AddEvaluations(1)
				ref.Cov.N[fmt.Sprintf("submask_%02d", subs)]++
			}
		}
	}
	ref.Cov.N["proper_subsequences"] += proper
	c.Cov.Merge(ref.Cov)
	c.SampleSess(ref)
	if ref.Failed() {
		c.FailSess(ref)
	}
}
