package h

import (
	"fmt"
	"sort"

	"github.com/mlange-42/arche/ecs"
	"github.com/mlange-42/arche/ecs/event"
	"github.com/mlange-42/arche/listener"
)

// Mode "nested" of C11 and C12: listeners that change the world from inside their callbacks.
//
// Except for removals, events are delivered with the world unlocked - so that callbacks can act on them. Here a
// listener creates entities (always), and adds/removes components of other entities (when the outer operation is
// a single-entity one) from inside non-removal callbacks, up to two levels deep. The oracle is a replica that is
// built from the event stream alone, with strict bookkeeping (an entity is created once, a component is added
// only when absent, removed only when present), compared with the world after every top-level operation: one
// missing or duplicated event makes them differ. With a listener.Dispatch (C12) every member additionally
// must receive exactly the events whose types it subscribed to, members with equal subscriptions must receive
// equal sequences, and the unrestricted member's stream filtered by a member's subscription must be that
// member's stream.

type nestRep struct {
	comps  map[ecs.ID]bool
	rel    bool
	relID  ecs.ID
	target ecs.Entity
}

type nestWorld struct {
	w        *ecs.World
	r        *Rng
	ids      []ecs.ID // plain components
	rel      ecs.ID
	rel2     ecs.ID // a second relation component (an entity has one of the two, or none)
	rep      map[ecs.Entity]*nestRep
	depth    int
	inflight []ecs.Entity // subjects of the events whose callbacks are on the stack
	budget   int
	topBatch bool
	viol     []Violation
	cov      *Cov
	step     int
	log      []string
}

func (n *nestWorld) fail(kind, f string, a ...any) {
	if len(n.viol) == 0 {
		n.viol = append(n.viol, Violation{Step: n.step, Kind: kind, Msg: fmt.Sprintf(f, a...)})
	}
}

func (n *nestWorld) known() []ecs.Entity {
	r := make([]ecs.Entity, 0, len(n.rep))
	for e := range n.rep {
		r = append(r, e)
	}
	sortEnts(r)
	return r
}

// apply folds one event into the replica, strictly.
func (n *nestWorld) apply(w *ecs.World, e ecs.EntityEvent) {
	rp, ok := n.rep[e.Entity]
	if e.Contains(event.EntityCreated) {
		if ok {
			n.fail("event.duplicate", "a second creation event for %v (step %d, nesting depth %d)", e.Entity, n.step, n.depth)
			return
		}
		rp = &nestRep{comps: map[ecs.ID]bool{}}
		n.rep[e.Entity] = rp
	} else if !ok {
		n.fail("event.unknown", "event %b for %v, which no creation event announced", e.EventTypes, e.Entity)
		return
	}
	if e.Contains(event.EntityRemoved) {
		delete(n.rep, e.Entity)
		return
	}
	for _, id := range e.AddedIDs {
		if rp.comps[id] {
			n.fail("event.duplicate", "component reported as added to %v twice", e.Entity)
			return
		}
		rp.comps[id] = true
	}
	for _, id := range e.RemovedIDs {
		if !rp.comps[id] {
			n.fail("event.duplicate", "component reported as removed from %v which the stream never added", e.Entity)
			return
		}
		delete(rp.comps, id)
	}
	rp.rel = rp.comps[n.rel] || rp.comps[n.rel2]
	if rp.rel {
		rp.relID = n.rel
		if rp.comps[n.rel2] {
			rp.relID = n.rel2
		}
		if e.Contains(event.TargetChanged) || e.Contains(event.RelationChanged) || e.Contains(event.EntityCreated) {
			rp.target = w.Relations().Get(e.Entity, rp.relID)
		}
	} else {
		rp.target = ecs.Entity{}
	}
	// "after the change": the entity shows the new state at delivery
	m := w.Mask(e.Entity)
	if m.TotalBitsSet() != len(rp.comps) {
		n.fail("event.early", "at delivery %v has %d components, the event stream says %d", e.Entity, m.TotalBitsSet(), len(rp.comps))
	}
}

// act performs one nested operation from inside a callback.
func (n *nestWorld) act(w *ecs.World, e ecs.EntityEvent) {
	if n.depth >= 2 || n.budget <= 0 || w.IsLocked() || e.Contains(event.EntityRemoved) || !n.r.Chance(0.35) {
		return
	}
	n.budget--
	n.depth++
	n.inflight = append(n.inflight, e.Entity)
	defer func() { n.depth--; n.inflight = n.inflight[:len(n.inflight)-1] }()
	n.cov.N["nested_ops"]++
	if n.depth == 2 {
		n.cov.N["nested_ops_depth2"]++
	}
	same := w.Ids(e.Entity)
	kind := n.r.Intn(7)
	if n.topBatch && kind >= 3 {
		kind = n.r.Intn(3) // inside a batch's event loop only creations
	}
	switch kind {
	case 6: // another, already announced entity is removed (its removal event is delivered inside this callback)
		cands := []ecs.Entity{}
		for _, o := range n.known() {
			busy := false
			for _, x := range n.inflight {
				if x == o {
					busy = true
				}
			}
			if !busy && w.Alive(o) {
				cands = append(cands, o)
			}
		}
		if len(cands) == 0 {
			return
		}
		o := Pick(n.r, cands)
		n.log = append(n.log, fmt.Sprintf("  nested RemoveEntity(%v)", o))
		w.RemoveEntity(o)
		if w.IsLocked() {
			n.fail("lock.leak", "world locked after a removal made from inside a callback")
		}
		n.cov.N["nested_removals"]++
	case 5: // a new target for another, already announced entity (whichever relation component it has)
		cands := []ecs.Entity{}
		for _, o := range n.known() {
			busy := false
			for _, x := range n.inflight {
				if x == o {
					busy = true
				}
			}
			if !busy && w.Alive(o) && (w.Has(o, n.rel) || w.Has(o, n.rel2)) {
				cands = append(cands, o)
			}
		}
		if len(cands) == 0 {
			return
		}
		o := Pick(n.r, cands)
		rel := n.rel
		if w.Has(o, n.rel2) {
			rel = n.rel2
		}
		t := ecs.Entity{}
		if k := n.known(); n.r.Chance(0.8) {
			if x := Pick(n.r, k); w.Alive(x) {
				t = x
			}
		}
		n.log = append(n.log, fmt.Sprintf("  nested Relations.Set(%v, %v)", o, t))
		w.Relations().Set(o, rel, t)
		n.cov.N["nested_target_changes"]++
	case 0: // one more entity in the very table the event's entity lives in
		n.log = append(n.log, fmt.Sprintf("  nested NewEntity(same %d comps)", len(same)))
		w.NewEntity(same...)
		n.cov.N["nested_create_same_table"]++
	case 1:
		n.log = append(n.log, "  nested NewBatch(2, same comps)")
		ecs.NewBuilder(w, same...).NewBatch(2)
		n.cov.N["nested_create_same_table"]++
	case 2:
		n.log = append(n.log, "  nested NewEntity(other comps)")
		w.NewEntity(n.ids[n.r.Intn(len(n.ids))])
	default: // add or remove a plain component of another, already announced entity
		cands := []ecs.Entity{}
		// (not the subject of an event that is still being delivered: members behind the acting one have not seen
		// that event yet and would get the two changes in the opposite order)
		for _, o := range n.known() {
			busy := false
			for _, x := range n.inflight {
				if x == o {
					busy = true
				}
			}
			if !busy && w.Alive(o) {
				cands = append(cands, o)
			}
		}
		if len(cands) == 0 {
			return
		}
		o := Pick(n.r, cands)
		id := n.ids[n.r.Intn(len(n.ids))]
		if w.Has(o, id) {
			n.log = append(n.log, fmt.Sprintf("  nested Remove(%v)", o))
			w.Remove(o, id)
		} else {
			n.log = append(n.log, fmt.Sprintf("  nested Add(%v)", o))
			w.Add(o, id)
		}
		n.cov.N["nested_component_changes"]++
	}
}

// compare checks the replica against the world.
func (n *nestWorld) compare(where string) {
	if len(n.viol) > 0 {
		return
	}
	q := n.w.Query(ecs.All())
	seen := 0
	for q.Next() {
		e := q.Entity()
		seen++
		rp, ok := n.rep[e]
		if !ok {
			n.fail("event.missing", "%s: %v is alive, but no creation event was delivered for it", where, e)
			q.Close()
			return
		}
		ids := q.Ids()
		if len(ids) != len(rp.comps) {
			n.fail("event.replica", "%s: %v has %d components, the event stream adds up to %d", where, e, len(ids), len(rp.comps))
			q.Close()
			return
		}
		for _, id := range ids {
			if !rp.comps[id] {
				n.fail("event.replica", "%s: %v has a component that no event reported", where, e)
				q.Close()
				return
			}
		}
		if rp.rel {
			if t := q.Relation(rp.relID); t != rp.target {
				n.fail("event.replica", "%s: %v has target %v, the event stream says %v", where, e, t, rp.target)
				q.Close()
				return
			}
		}
	}
	if seen != len(n.rep) {
		n.fail("event.replica", "%s: %d entities alive, the event stream adds up to %d", where, seen, len(n.rep))
	}
	n.cov.N["nested_replica_compares"]++
}

// nestMember is a Dispatch member that records what it receives.
type nestMember struct {
	n     *nestWorld
	subs  event.Subscription
	comps *ecs.Mask // component restriction (only used for members that listen to relation events)
	relID ecs.ID    // the relation component comps consists of
	acts  bool
	all   bool
	got   []string
	rels  []string // (unrestricted member) per event: the relation component the entity has at delivery, from the world
}

// checkRelation compares the relation component an event names as the new one with the one the entity has.
func (n *nestWorld) checkRelation(w *ecs.World, e ecs.EntityEvent) (ecs.ID, bool) {
	if e.Contains(event.EntityRemoved) {
		// removal events come before the removal, with the world locked - also when the removal was made from
		// inside another callback
		if !w.IsLocked() {
			n.fail("event.unlocked", "the removal event for %v (nesting depth %d) was delivered with the world unlocked", e.Entity, n.depth)
		} else if !w.Alive(e.Entity) {
			n.fail("event.late", "the removal event for %v (nesting depth %d) was delivered after the removal", e.Entity, n.depth)
		}
		return ecs.ID{}, false
	}
	if !w.Alive(e.Entity) {
		return ecs.ID{}, false
	}
	var truth ecs.ID
	has := false
	if w.Has(e.Entity, n.rel) {
		truth, has = n.rel, true
	} else if w.Has(e.Entity, n.rel2) {
		truth, has = n.rel2, true
	}
	if e.NewRelation != nil && (!has || *e.NewRelation != truth) {
		n.fail("event.value", "event %b for %v names relation component %v as the new one, the entity's relation component is %v (has one: %v)", e.EventTypes, e.Entity, *e.NewRelation, truth, has)
	}
	if e.NewRelation == nil && has && e.EventTypes&(event.EntityCreated|event.RelationChanged|event.TargetChanged) != 0 {
		n.fail("event.value", "event %b for %v names no new relation component, the entity has one", e.EventTypes, e.Entity)
	}
	return truth, has
}

func (m *nestMember) Subscriptions() event.Subscription { return m.subs }
func (m *nestMember) Components() *ecs.Mask             { return m.comps }
func (m *nestMember) Notify(w *ecs.World, e ecs.EntityEvent) {
	if e.EventTypes&m.subs == 0 {
		m.n.fail("subscription.foreign", "a Dispatch member subscribed to %b received an event of types %b for %v", m.subs, e.EventTypes, e.Entity)
		return
	}
	truth, has := m.n.checkRelation(w, e)
	m.got = append(m.got, fmt.Sprintf("%v:%b", e.Entity, e.EventTypes))
	if m.all {
		// (only pure target changes are used for the restricted members: old and new relation component are then
		// both the one the entity has)
		if has && e.EventTypes == event.TargetChanged {
			m.rels = append(m.rels, fmt.Sprint(truth))
		} else {
			m.rels = append(m.rels, "")
		}
	}
	if m.all {
		m.n.apply(w, e)
	}
	if m.acts {
		m.n.act(w, e)
	}
}

// nestDirect is the single listener of the C11 variant.
type nestDirect struct{ n *nestWorld }

func (l *nestDirect) Subscriptions() event.Subscription { return event.All }
func (l *nestDirect) Components() *ecs.Mask             { return nil }
func (l *nestDirect) Notify(w *ecs.World, e ecs.EntityEvent) {
	l.n.checkRelation(w, e)
	l.n.apply(w, e)
	l.n.act(w, e)
}

func caseNested(c *Ctx, dispatch bool) {
	conf := ecs.NewConfig().WithCapacityIncrement(Pick(c.R, []int{1, 2, 8, 128}))
	w := ecs.NewWorld(conf)
	n := &nestWorld{w: &w, r: c.R, rep: map[ecs.Entity]*nestRep{}, cov: NewCov()}
	for i := 0; i < c.R.Intn(70); i++ {
		ecs.TypeID(&w, TypeOfKey(fmt.Sprintf("F%d", 9100+i)))
	}
	for _, k := range []string{"S0", "S1", "S2", "S3"} {
		n.ids = append(n.ids, ecs.TypeID(&w, TypeOfKey(k)))
	}
	n.rel = ecs.TypeID(&w, TypeOfKey("R0"))
	n.rel2 = ecs.TypeID(&w, TypeOfKey("R1"))
	var members []*nestMember
	if dispatch {
		subs := []event.Subscription{event.EntityCreated, event.ComponentAdded | event.ComponentRemoved, event.ComponentRemoved,
			event.Relations | event.TargetChanged, event.EntityRemoved, event.EntityCreated | event.EntityRemoved}
		Shuffle(c.R, subs)
		actor := subs[0]
		// the acting member first or in the middle; every subscription twice; one unrestricted member feeds the replica
		members = []*nestMember{{n: n, subs: actor, acts: true}, {n: n, subs: subs[1]}, {n: n, subs: subs[2]},
			{n: n, subs: event.All, all: true}, {n: n, subs: actor}, {n: n, subs: subs[2]}, {n: n, subs: subs[1]}}
		if c.R.Chance(0.5) {
			members[0], members[2] = members[2], members[0]
		}
		d := listener.NewDispatch()
		for _, m := range members[:4] {
			d.AddListener(m)
		}
		w.SetListener(&d)
		// the rest is added after installation
		for _, m := range members[4:] {
			d.AddListener(m)
		}
		// two members that listen to pure target changes of one relation component each
		for _, r := range []ecs.ID{n.rel, n.rel2} {
			mask := ecs.All(r)
			m := &nestMember{n: n, subs: event.TargetChanged, comps: &mask, relID: r}
			members = append(members, m)
			d.AddListener(m)
		}
	} else {
		w.SetListener(&nestDirect{n})
	}
	subset := func() []ecs.ID {
		r := []ecs.ID{}
		for _, id := range n.ids {
			if c.R.Chance(0.4) {
				r = append(r, id)
			}
		}
		return r
	}
	steps := 60
	for n.step = 0; n.step < steps && len(n.viol) == 0; n.step++ {
		n.budget = 3
		n.topBatch = false
		known := n.known()
		op := c.R.Intn(10)
		panicked := func() (p any) {
			defer func() { p = recover() }()
			switch op {
			case 0, 1:
				ids := subset()
				n.log = append(n.log, fmt.Sprintf("%d NewEntity(%d comps)", n.step, len(ids)))
				w.NewEntity(ids...)
			case 2:
				n.topBatch = true
				ids := subset()
				n.log = append(n.log, fmt.Sprintf("%d NewBatch(%d comps)", n.step, len(ids)))
				ecs.NewBuilder(&w, ids...).NewBatch(1 + c.R.Intn(5))
			case 3:
				n.topBatch = true
				ids := subset()
				n.log = append(n.log, fmt.Sprintf("%d NewBatchQ(%d comps)", n.step, len(ids)))
				q := ecs.NewBuilder(&w, ids...).NewBatchQ(1 + c.R.Intn(4))
				for q.Next() {
				}
			case 4:
				if len(known) > 0 {
					e := Pick(c.R, known)
					id := Pick(c.R, n.ids)
					if w.Has(e, id) {
						n.log = append(n.log, fmt.Sprintf("%d Remove(%v)", n.step, e))
						w.Remove(e, id)
					} else {
						n.log = append(n.log, fmt.Sprintf("%d Add(%v)", n.step, e))
						w.Add(e, id)
					}
				}
			case 5:
				if len(known) > 0 {
					e := Pick(c.R, known)
					n.log = append(n.log, fmt.Sprintf("%d RemoveEntity(%v)", n.step, e))
					w.RemoveEntity(e)
				}
			case 6:
				if len(known) > 0 {
					t := Pick(c.R, known)
					rel := Pick(c.R, []ecs.ID{n.rel, n.rel2})
					ids := append(subset(), rel)
					n.log = append(n.log, fmt.Sprintf("%d Builder.New(%d comps, target %v)", n.step, len(ids), t))
					ecs.NewBuilder(&w, ids...).WithRelation(rel).New(t)
				}
			case 7:
				cands := []ecs.Entity{}
				for _, e := range known {
					if w.Has(e, n.rel) || w.Has(e, n.rel2) {
						cands = append(cands, e)
					}
				}
				if len(cands) > 0 && len(known) > 0 {
					e, t := Pick(c.R, cands), Pick(c.R, known)
					rel := n.rel
					if w.Has(e, n.rel2) {
						rel = n.rel2
					}
					n.log = append(n.log, fmt.Sprintf("%d Relations.Set(%v, %v)", n.step, e, t))
					w.Relations().Set(e, rel, t)
				}
			case 8:
				n.topBatch = true
				a, b := Pick(c.R, n.ids), Pick(c.R, n.ids)
				if a != b {
					f := ecs.All(a).Without(b)
					n.log = append(n.log, fmt.Sprintf("%d Batch.Add", n.step))
					w.Batch().Add(&f, b)
				}
			default:
				n.topBatch = true
				f := ecs.All(Pick(c.R, n.ids), Pick(c.R, n.ids))
				n.log = append(n.log, fmt.Sprintf("%d Batch.RemoveEntities", n.step))
				w.Batch().RemoveEntities(f)
			}
			return nil
		}()
		if panicked != nil && len(n.viol) == 0 {
			n.fail("panic:nested", "step %d panicked: %v", n.step, panicked)
		}
		if w.IsLocked() && len(n.viol) == 0 {
			n.fail("lock.leak", "world locked after step %d", n.step)
		}
		n.compare(fmt.Sprintf("after step %d", n.step))
		if dispatch && len(n.viol) == 0 {
			var all *nestMember
			for _, m := range members {
				if m.all {
					all = m
				}
			}
			for i, m := range members {
				if m.all {
					continue
				}
				// the documented rule without component restriction: some subscribed type occurred
				want := []string{}
				for k, s := range all.got {
					var ent string
					var bits uint
					fmt.Sscanf(s[lastColon(s)+1:], "%b", &bits)
					ent = s[:lastColon(s)]
					_ = ent
					if m.comps != nil {
						// pure target changes of entities whose relation component is the member's
						if event.Subscription(bits) == event.TargetChanged && all.rels[k] == fmt.Sprint(m.relID) {
							want = append(want, s)
						}
						continue
					}
					if event.Subscription(bits)&m.subs != 0 {
						want = append(want, s)
					}
				}
				if m.comps != nil {
					// (events of other shapes that involve the member's relation component reach it as well)
					kept := []string{}
					for _, s := range m.got {
						var bits uint
						fmt.Sscanf(s[lastColon(s)+1:], "%b", &bits)
						if event.Subscription(bits) == event.TargetChanged {
							kept = append(kept, s)
						}
					}
					m.got = kept
				}
				// (as multisets: a nested event reaches members behind the acting one before the outer event does)
				got := append([]string{}, m.got...)
				sort.Strings(want)
				sort.Strings(got)
				if fmt.Sprint(want) != fmt.Sprint(got) {
					n.fail("subscription.stream", "Dispatch member %d (subscription %b) received %d events, the full stream holds %d events of its types: %v vs %v", i, m.subs, len(m.got), len(want), tailStr(m.got), tailStr(want))
					break
				}
			}
			for _, m := range members {
				m.got = m.got[:0]
				m.rels = m.rels[:0]
			}
			n.cov.N["nested_dispatch_member_compares"]++
		}
	}
	c.Cov.Merge(n.cov)
	c.Sample(map[string]any{"mode": "nested", "dispatch": dispatch, "case": c.Case, "log_tail": tailStr(n.log)})
	if len(n.viol) > 0 {
		c.Fail(n.viol[0], map[string]any{"log": n.log, "dispatch": dispatch})
		return
	}
	if n.cov.N["nested_create_same_table"] >= 2 && n.cov.N["nested_ops"] >= 5 {
		c.NonTrivial(HashStr(fmt.Sprint(n.log)))
	}
}

func lastColon(s string) int {
	for i := len(s) - 1; i >= 0; i-- {
		if s[i] == ':' {
			return i
		}
	}
	return -1
}
