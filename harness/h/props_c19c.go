package h

import (
	"fmt"
	"sync"
	"sync/atomic"

	"github.com/mlange-42/arche/ecs"
	"github.com/mlange-42/arche/ecs/event"
	"github.com/mlange-42/arche/filter"
	"github.com/mlange-42/arche/listener"
)

// c19SharedInputs: several worlds, one goroutine each, are handed the SAME caller-owned values - filter values,
// a listener.Dispatch with thread-safe callbacks, component values - as a program running many simulations
// in parallel does. The library must treat them as read-only: no race inside the library, no cross-talk.
func c19SharedInputs(c *Ctx) {
	goroutines := 6
	types := []string{"S0", "S1", "S3", "R0", "S4", "R1", "S6"}
	mkWorld := func() (*ecs.World, []ecs.ID) {
		w := ecs.NewWorld(ecs.NewConfig().WithCapacityIncrement(Pick(NewRng(c.Seed, uint64(c.Case)), []int{1, 4, 128})))
		ids := []ecs.ID{}
		for _, k := range types {
			ids = append(ids, ecs.TypeID(&w, TypeOfKey(k)))
		}
		return &w, ids
	}
	_, ids := mkWorld()
	// shared, caller-owned values
	mf := ecs.All(ids[0]).Without(ids[2])
	tree := filter.And(&mf, filter.Or(filter.Any(ids[1], ids[4]), filter.Not(ecs.All(ids[6]))))
	relF := ecs.NewRelationFilter(ecs.All(ids[3]), ecs.Entity{})
	val0 := &G0{X: 7, Y: 9}
	val4 := &G4{A: 1, B: 2, C: 3}
	var worldIdx sync.Map // *ecs.World -> index; filled before the worlds run
	counts := make([][3]atomic.Int64, goroutines*2)
	cbAll := listener.NewCallback(func(w *ecs.World, e ecs.EntityEvent) {
		if i, ok := worldIdx.Load(w); ok {
			counts[i.(int)][0].Add(1)
		}
	}, event.All)
	cbRel := listener.NewCallback(func(w *ecs.World, e ecs.EntityEvent) {
		if i, ok := worldIdx.Load(w); ok {
			counts[i.(int)][1].Add(1)
		}
	}, event.Relations|event.EntityRemoved, ids[3])
	cbAdd := listener.NewCallback(func(w *ecs.World, e ecs.EntityEvent) {
		if i, ok := worldIdx.Load(w); ok {
			counts[i.(int)][2].Add(1)
		}
	}, event.ComponentAdded|event.EntityCreated, ids[0], ids[4])
	disp := listener.NewDispatch(&cbAll, &cbRel, &cbAdd)

	drive := func(gi int, w *ecs.World, wids []ecs.ID, log *[]string) {
		r := NewRng(c.Seed, uint64(c.Case), uint64(gi), 777)
		w.SetListener(&disp)
		alive := []ecs.Entity{}
		for i := 0; i < 220; i++ {
			switch r.Intn(8) {
			case 0, 1:
				sub := []ecs.ID{}
				for _, j := range []int{0, 1, 2, 4, 6} {
					if r.Chance(0.4) {
						sub = append(sub, wids[j])
					}
				}
				alive = append(alive, w.NewEntity(sub...))
			case 2:
				e := w.NewEntityWith(ecs.Component{ID: wids[0], Comp: val0}, ecs.Component{ID: wids[4], Comp: val4})
				alive = append(alive, e)
			case 3:
				if len(alive) > 0 {
					t := alive[r.Intn(len(alive))]
					alive = append(alive, ecs.NewBuilder(w, wids[3], wids[0]).WithRelation(wids[3]).New(t))
				}
			case 4:
				if len(alive) > 3 {
					j := r.Intn(len(alive))
					w.RemoveEntity(alive[j])
					alive = append(alive[:j], alive[j+1:]...)
				}
			case 5:
				if len(alive) > 0 {
					e := alive[r.Intn(len(alive))]
					if w.Has(e, wids[0]) {
						w.Set(e, wids[0], val0)
					} else {
						w.Assign(e, ecs.Component{ID: wids[0], Comp: val0})
					}
				}
			case 6:
				n := 0
				for _, f := range []ecs.Filter{&mf, tree, &relF} {
					q := w.Query(f)
					n = n*1000 + q.Count()
					for q.Next() {
					}
				}
				*log = append(*log, fmt.Sprint("q", n))
			default:
				bf := ecs.All(wids[1]).Without(wids[6])
				*log = append(*log, fmt.Sprint("b", w.Batch().Add(&bf, wids[6])))
			}
		}
		*log = append(*log, fmt.Sprint("alive", w.Stats().Entities.Used, len(alive)))
	}
	run := func(offset int, concurrent bool) [][]string {
		logs := make([][]string, goroutines)
		worlds := make([]*ecs.World, goroutines)
		wids := make([][]ecs.ID, goroutines)
		for gi := 0; gi < goroutines; gi++ {
			worlds[gi], wids[gi] = mkWorld()
			worldIdx.Store(worlds[gi], offset+gi)
		}
		if !concurrent {
			for gi := 0; gi < goroutines; gi++ {
				drive(gi, worlds[gi], wids[gi], &logs[gi])
			}
			return logs
		}
		var wg sync.WaitGroup
		start := make(chan struct{})
		for gi := 0; gi < goroutines; gi++ {
			wg.Add(1)
			go func(gi int) {
				defer wg.Done()
				defer func() {
					if r := recover(); r != nil {
						logs[gi] = append(logs[gi], fmt.Sprint("panic: ", r))
					}
				}()
				<-start
				drive(gi, worlds[gi], wids[gi], &logs[gi])
			}(gi)
		}
		close(start)
		wg.Wait()
		return logs
	}
	conc := run(0, true)
	solo := run(goroutines, false)
	for gi := 0; gi < goroutines; gi++ {
		cc := fmt.Sprint(counts[gi][0].Load(), counts[gi][1].Load(), counts[gi][2].Load())
		cs := fmt.Sprint(counts[goroutines+gi][0].Load(), counts[goroutines+gi][1].Load(), counts[goroutines+gi][2].Load())
		if fmt.Sprint(conc[gi]) != fmt.Sprint(solo[gi]) || cc != cs {
			c.Fail(Violation{Kind: "crosstalk.sharedinputs", Msg: fmt.Sprintf("world %d, sharing filter values, a Dispatch listener and component values with %d other worlds, behaves differently when driven concurrently: events per sub-listener %s vs alone %s; log tail %v vs %v", gi, goroutines-1, cc, cs, tailStr(conc[gi]), tailStr(solo[gi]))},
				map[string]any{"goroutine": gi})
			return
		}
		c.Cov.N["shared_input_worlds_compared"]++
		c.Cov.N["shared_input_events"] += int(counts[gi][0].Load())
	}
	if *val0 != (G0{X: 7, Y: 9}) || *val4 != (G4{A: 1, B: 2, C: 3}) {
		c.Fail(Violation{Kind: "crosstalk.sharedvalue", Msg: "a component value passed to Set/Assign/NewEntityWith was modified by the library"}, nil)
		return
	}
	c.AddEvaluations(goroutines*2 - 1)
	c.Sample(map[string]any{"mode": "sharedinputs", "case": c.Case, "worlds": goroutines, "events_world0": counts[0][0].Load()})
	c.NonTrivial(HashStr(fmt.Sprint("c19si", c.Seed, c.Case)))
}
