package h

import (
	"fmt"
	"sync"
	"sync/atomic"

	"github.com/mlange-42/arche/ecs"
	"github.com/mlange-42/arche/ecs/event"
	"github.com/mlange-42/arche/filter"
	"github.com/mlange-42/arche/listener"
)

// c19SharedInputs: several worlds, one goroutine each, are handed the SAME caller-owned values - filter values,
// a listener.Dispatch with thread-safe callbacks, component values - as a program running many simulations
// in parallel does. The library must treat them as read-only: no race inside the library, no cross-talk.
func c19SharedInputs(c *Ctx) {
	goroutines := 6
	types := []string{"S0", "S1", "S3", "R0", "S4", "R1", "S6"}
	mkWorld := func() (*ecs.World, []ecs.ID) {
		w := ecs.NewWorld(ecs.NewConfig().WithCapacityIncrement(Pick(NewRng(c.Seed, uint64(c.Case)), []int{1, 4, 128})))
		ids := []ecs.ID{}
		for _, k := range types {
			ids = append(ids, ecs.TypeID(&w, TypeOfKey(k)))
		}
		return &w, ids
	}
	_, ids := mkWorld()
	// shared, caller-owned values
	mf := ecs.All(ids[0]).Without(ids[2])
	tree := filter.And(&mf, filter.Or(filter.Any(ids[1], ids[4]), filter.Not(ecs.All(ids[6]))))
	relF := ecs.NewRelationFilter(ecs.All(ids[3]), ecs.Entity{})
	val0 := &G0{X: 7, Y: 9}
	val4 := &G4{A: 1, B: 2, C: 3}
	// template lists, passed to variadic parameters as list... (the callee then sees the caller's backing array);
	// deliberately not in ID order and with the relation component not last
	tBuild := []ecs.ID{ids[3], ids[4], ids[0]}
	tBuildWith := []ecs.Component{{ID: ids[3], Comp: &RelA{}}, {ID: ids[4], Comp: val4}, {ID: ids[0], Comp: val0}}
	tNew := []ecs.ID{ids[6], ids[1], ids[0]}
	tAdd := []ecs.ID{ids[4], ids[2]}
	tExAdd, tExRem := []ecs.ID{ids[6], ids[2]}, []ecs.ID{ids[1], ids[0]}
	tRelEx := []ecs.ID{ids[5], ids[2]}
	tAssign := []ecs.Component{{ID: ids[4], Comp: val4}, {ID: ids[0], Comp: val0}}
	tmplIDs := map[string][]ecs.ID{"NewBuilder": tBuild, "NewEntity": tNew, "Add/Remove": tAdd, "Exchange add": tExAdd, "Exchange remove": tExRem, "Relations.Exchange add": tRelEx}
	tmplComps := map[string][]ecs.Component{"NewBuilderWith": tBuildWith, "Assign/NewEntityWith": tAssign}
	pristineIDs, pristineComps := map[string][]ecs.ID{}, map[string][]ecs.Component{}
	for k, v := range tmplIDs {
		pristineIDs[k] = append([]ecs.ID{}, v...)
	}
	for k, v := range tmplComps {
		pristineComps[k] = append([]ecs.Component{}, v...)
	}
	var worldIdx sync.Map // *ecs.World -> index; filled before the worlds run
	counts := make([][3]atomic.Int64, goroutines*2)
	cbAll := listener.NewCallback(func(w *ecs.World, e ecs.EntityEvent) {
		if i, ok := worldIdx.Load(w); ok {
			counts[i.(int)][0].Add(1)
		}
	}, event.All)
	cbRel := listener.NewCallback(func(w *ecs.World, e ecs.EntityEvent) {
		if i, ok := worldIdx.Load(w); ok {
			counts[i.(int)][1].Add(1)
		}
	}, event.Relations|event.EntityRemoved, ids[3])
	cbAdd := listener.NewCallback(func(w *ecs.World, e ecs.EntityEvent) {
		if i, ok := worldIdx.Load(w); ok {
			counts[i.(int)][2].Add(1)
		}
	}, event.ComponentAdded|event.EntityCreated, ids[0], ids[4])
	disp := listener.NewDispatch(&cbAll, &cbRel, &cbAdd)

	drive := func(gi int, w *ecs.World, wids []ecs.ID, log *[]string) {
		r := NewRng(c.Seed, uint64(c.Case), uint64(gi), 777)
		w.SetListener(&disp)
		alive := []ecs.Entity{}
		for i := 0; i < 220; i++ {
			switch r.Intn(14) {
			case 8: // builders fed from the shared template lists
				if len(alive) > 0 {
					t := alive[r.Intn(len(alive))]
					if r.Chance(0.5) {
						alive = append(alive, ecs.NewBuilder(w, tBuild...).WithRelation(wids[3]).New(t))
					} else {
						alive = append(alive, ecs.NewBuilderWith(w, tBuildWith...).WithRelation(wids[3]).New(t))
					}
					if r.Chance(0.3) {
						b := ecs.NewBuilder(w, tBuild...).WithRelation(wids[3])
						b.NewBatch(2, t)
						q := w.Query(ecs.All(tBuild...))
						*log = append(*log, fmt.Sprint("nb", q.Count()))
						q.Close()
					}
					if r.Chance(0.3) {
						// batch creation with component values from the shared list (a zero-sized marker comes first)
						bw := ecs.NewBuilderWith(w, tBuildWith...).WithRelation(wids[3])
						if r.Chance(0.5) {
							bw.NewBatch(3, t)
						} else {
							q := bw.NewBatchQ(2, t)
							n := 0
							for q.Next() {
								n++
							}
							*log = append(*log, fmt.Sprint("nbq", n))
						}
						bn := ecs.NewBuilderWith(w, tAssign...)
						bn.NewBatch(2)
					}
				}
			case 9:
				alive = append(alive, w.NewEntity(tNew...))
				if r.Chance(0.3) {
					alive = append(alive, w.NewEntityWith(tAssign...))
				}
			case 10:
				if len(alive) > 0 {
					e := alive[r.Intn(len(alive))]
					switch {
					case !w.Has(e, wids[4]) && !w.Has(e, wids[2]):
						w.Add(e, tAdd...)
					case w.Has(e, wids[4]) && w.Has(e, wids[2]):
						w.Remove(e, tAdd...)
					case !w.Has(e, wids[4]) && !w.Has(e, wids[0]):
						w.Assign(e, tAssign...)
					}
				}
			case 11:
				if len(alive) > 0 {
					e := alive[r.Intn(len(alive))]
					if w.Has(e, wids[1]) && w.Has(e, wids[0]) && !w.Has(e, wids[6]) && !w.Has(e, wids[2]) {
						w.Exchange(e, tExAdd, tExRem)
						m := w.Mask(e)
						*log = append(*log, fmt.Sprint("x", m.TotalBitsSet()))
					}
				}
			case 12:
				bf := ecs.All(tExRem...).Without(tExAdd...)
				*log = append(*log, fmt.Sprint("bx", w.Batch().Exchange(&bf, tExAdd, tExRem)))
			case 13:
				if len(alive) > 1 {
					e, t := alive[r.Intn(len(alive))], alive[r.Intn(len(alive))]
					if !w.Has(e, wids[5]) && !w.Has(e, wids[3]) && !w.Has(e, wids[2]) {
						w.Relations().Exchange(e, tRelEx, nil, wids[5], t)
						*log = append(*log, fmt.Sprint("rx", w.Relations().Get(e, wids[5]) == t))
					}
				}
			case 0, 1:
				sub := []ecs.ID{}
				for _, j := range []int{0, 1, 2, 4, 6} {
					if r.Chance(0.4) {
						sub = append(sub, wids[j])
					}
				}
				alive = append(alive, w.NewEntity(sub...))
			case 2:
				e := w.NewEntityWith(ecs.Component{ID: wids[0], Comp: val0}, ecs.Component{ID: wids[4], Comp: val4})
				alive = append(alive, e)
			case 3:
				if len(alive) > 0 {
					t := alive[r.Intn(len(alive))]
					alive = append(alive, ecs.NewBuilder(w, wids[3], wids[0]).WithRelation(wids[3]).New(t))
				}
			case 4:
				if len(alive) > 3 {
					j := r.Intn(len(alive))
					w.RemoveEntity(alive[j])
					alive = append(alive[:j], alive[j+1:]...)
				}
			case 5:
				if len(alive) > 0 {
					e := alive[r.Intn(len(alive))]
					if w.Has(e, wids[0]) {
						w.Set(e, wids[0], val0)
					} else {
						w.Assign(e, ecs.Component{ID: wids[0], Comp: val0})
					}
				}
			case 6:
				n := 0
				for _, f := range []ecs.Filter{&mf, tree, &relF} {
					q := w.Query(f)
					n = n*1000 + q.Count()
					for q.Next() {
					}
				}
				*log = append(*log, fmt.Sprint("q", n))
			default:
				bf := ecs.All(wids[1]).Without(wids[6])
				*log = append(*log, fmt.Sprint("b", w.Batch().Add(&bf, wids[6])))
			}
		}
		*log = append(*log, fmt.Sprint("alive", w.Stats().Entities.Used, len(alive)))
	}
	run := func(offset int, concurrent bool) [][]string {
		logs := make([][]string, goroutines)
		worlds := make([]*ecs.World, goroutines)
		wids := make([][]ecs.ID, goroutines)
		for gi := 0; gi < goroutines; gi++ {
			worlds[gi], wids[gi] = mkWorld()
			worldIdx.Store(worlds[gi], offset+gi)
		}
		if !concurrent {
			for gi := 0; gi < goroutines; gi++ {
				drive(gi, worlds[gi], wids[gi], &logs[gi])
			}
			return logs
		}
		var wg sync.WaitGroup
		start := make(chan struct{})
		for gi := 0; gi < goroutines; gi++ {
			wg.Add(1)
			go func(gi int) {
				defer wg.Done()
				defer func() {
					if r := recover(); r != nil {
						logs[gi] = append(logs[gi], fmt.Sprint("panic: ", r))
					}
				}()
				<-start
				drive(gi, worlds[gi], wids[gi], &logs[gi])
			}(gi)
		}
		close(start)
		wg.Wait()
		return logs
	}
	conc := run(0, true)
	solo := run(goroutines, false)
	for gi := 0; gi < goroutines; gi++ {
		cc := fmt.Sprint(counts[gi][0].Load(), counts[gi][1].Load(), counts[gi][2].Load())
		cs := fmt.Sprint(counts[goroutines+gi][0].Load(), counts[goroutines+gi][1].Load(), counts[goroutines+gi][2].Load())
		if fmt.Sprint(conc[gi]) != fmt.Sprint(solo[gi]) || cc != cs {
			c.Fail(Violation{Kind: "crosstalk.sharedinputs", Msg: fmt.Sprintf("world %d, sharing filter values, a Dispatch listener and component values with %d other worlds, behaves differently when driven concurrently: events per sub-listener %s vs alone %s; log tail %v vs %v", gi, goroutines-1, cc, cs, tailStr(conc[gi]), tailStr(solo[gi]))},
				map[string]any{"goroutine": gi})
			return
		}
		c.Cov.N["shared_input_worlds_compared"]++
		c.Cov.N["shared_input_events"] += int(counts[gi][0].Load())
	}
	if *val0 != (G0{X: 7, Y: 9}) || *val4 != (G4{A: 1, B: 2, C: 3}) {
		c.Fail(Violation{Kind: "crosstalk.sharedvalue", Msg: "a component value passed to Set/Assign/NewEntityWith was modified by the library"}, nil)
		return
	}
	for k, v := range tmplIDs {
		if fmt.Sprint(v) != fmt.Sprint(pristineIDs[k]) {
			c.Fail(Violation{Kind: "crosstalk.sharedinput.mutated", Msg: fmt.Sprintf("the ID list that all worlds passed to %s was modified by the library: every other world was handed a different argument from then on", k)}, nil)
			return
		}
	}
	for k, v := range tmplComps {
		if fmt.Sprint(v) != fmt.Sprint(pristineComps[k]) {
			c.Fail(Violation{Kind: "crosstalk.sharedinput.mutated", Msg: fmt.Sprintf("the component list that all worlds passed to %s was modified by the library: every other world was handed a different argument from then on", k)}, nil)
			return
		}
	}
	c.Cov.N["shared_template_lists_compared"] += len(tmplIDs) + len(tmplComps)
	c.AddEvaluations(goroutines*2 - 1)
	c.Sample(map[string]any{"mode": "sharedinputs", "case": c.Case, "worlds": goroutines, "events_world0": counts[0][0].Load()})
	c.NonTrivial(HashStr(fmt.Sprint("c19si", c.Seed, c.Case)))
}
