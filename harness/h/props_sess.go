package h

import (
	"fmt"
	"strings"
)

func init() {
	CaseFns["C01"] = caseC01
	CaseFns["C02"] = caseC02
	CaseFns["C03"] = caseC03
	CaseFns["C05"] = caseC05
	CaseFns["C06"] = caseC06
	CaseFns["C07"] = caseC07
	CaseFns["C11"] = caseC11
}

func lateKeys(r *Rng, n int) []string {
	base := 2000 + r.Intn(1000)
	keys := []string{}
	for i := 0; i < n; i++ {
		keys = append(keys, fmt.Sprintf("F%d", base+i))
	}
	return keys
}

func finish(c *Ctx, s *Sess, nontrivial bool) {
	c.Cov.Merge(s.Cov)
	c.SampleSess(s)
	if s.Failed() {
		c.FailSess(s)
		return
	}
	if nontrivial {
		c.NonTrivial(HashOps(s.Log))
	}
}

// C01: component data integrity across every structural change.
func caseC01(c *Ctx) {
	if c.Mode == "big" {
		caseBig(c)
		return
	}
	if c.Case%5 == 2 && !cloneChain(c) {
		return
	}
	cfg := GenCfg(c.R, 0)
	if c.Case%7 == 3 && len(cfg.Types) < maskBits() {
		// one component type larger than a memory page
		cfg.Types = append(cfg.Types, fmt.Sprintf("B%d", c.Case))
		cfg.Used = append(cfg.Used, len(cfg.Types)-1)
	}
	p := DefaultProfile()
	p.Steps = 160
	p.Scale(2, "Add", "Remove", "Exchange", "Assign", "RelSet", "RelExchange", "BuilderAdd", "RemoveEntity", "Set", "WritePtr")
	p.Scale(2, "BatchAdd", "BatchRemove", "BatchExchange", "BatchSetRel", "RelExchangeBatch")
	p.W["RegisterType"] = 6
	p.Late = lateKeys(c.R, 20)
	p.Zero("QueryCheck", "CacheRegister", "CacheUnregister")
	if c.Case%5 == 2 {
		// batch moves driven through registered filters, across resets that retire and re-use relation tables
		p.W["CacheRegister"], p.W["CacheUnregister"], p.W["Reset"] = 6, 1, 3
		p.PCached = 0.8
	}
	o := Opts{Model: true, Sweep: true, Inv: true, Track: true, AllIDs: c.Case%4 == 0, NoTrans: true}
	s := RunHistory(c.R, cfg, o, p)
	n := s.Cov.N
	finish(c, s, (n["swap_removes"] >= 1 || !HooksOn) && (n["growths"] >= 1 || !HooksOn) && n["moves_2valued"] >= 1)
}

// C02: entity handles.
func caseC02(c *Ctx) {
	if c.Mode == "big" {
		caseBig(c)
		return
	}
	cfg := GenCfg(c.R, 24)
	p := DefaultProfile()
	p.Steps = 220
	p.MaxBatch = 40
	p.MaxEnts = 90
	p.Scale(4, "NewBatch", "RemoveEntity", "BatchRemoveEntities", "NewEntity")
	p.W["Reset"] = 2
	p.W["DumpKeep"], p.W["ResetLoad"] = 3, 6
	p.Zero("QueryCheck", "RegisterType", "Set", "WritePtr", "Assign")
	if c.Case%10 == 3 {
		// populations beyond the default capacity increment (128) and several bitset words
		p.MaxEnts = 330
		p.MaxBatch = 150
		p.Steps = 140
		cfg.CapInc = Pick(c.R, []int{128, 128, 64, 100})
		p.Scale(3, "NewBatch")
	}
	o := Opts{Model: true, Sweep: c.Case%2 == 0, Inv: true, Ledger: true, Track: true, NoTrans: true}
	s := NewSess(cfg, o)
	g := NewGen(c.R, s, p)
	mixed, deep := false, false
	// rejected creation calls belong to the histories as well: whatever panics must not leave entities behind
	var creationFaults []FaultRow
	for _, row := range FaultTable() {
		if strings.Contains(row.Name, "NewBatch") || strings.Contains(row.Name, "BuilderNew") || strings.Contains(row.Name, "NewEntity") {
			creationFaults = append(creationFaults, row)
		}
	}
	for i := 0; i < p.Steps && !s.Failed(); i++ {
		if i > 10 && c.R.Chance(0.05) {
			row := &creationFaults[c.R.Intn(len(creationFaults))]
			if fop := row.Gen(g); fop != nil {
				if !InjectFault(s, row, fop) {
					break
				}
				s.Cov.N["rejected_creations"]++
			}
			continue
		}
		op := g.Next()
		out := s.Do(op)
		if s.Failed() {
			break
		}
		if op.K == "NewBatch" {
			fresh, rec := false, false
			for _, e := range out.Created {
				if e.Generation() == 0 {
					fresh = true
				} else {
					rec = true
				}
			}
			if fresh && rec {
				mixed = true
				s.Cov.N["batch_mixed_recycled_fresh"]++
			}
		}
		for _, e := range out.Created {
			if e.Generation() >= 3 {
				deep = true
				s.Cov.N["handles_recycled_3plus"]++
			}
		}
	}
	finish(c, s, mixed || deep)
}

// C03: queries.
func caseC03(c *Ctx) {
	if c.Mode == "big" {
		caseBig(c)
		return
	}
	cfg := GenCfg(c.R, 0)
	p := DefaultProfile()
	p.Steps = 140
	p.Scale(8, "QueryCheck")
	p.Scale(2, "CacheRegister", "BuilderNew", "RelSet", "NewBatch")
	p.PCached = 0.3
	o := Opts{Track: true, NoTrans: true}
	s := RunHistory(c.R, cfg, o, p)
	finish(c, s, s.Cov.N["query_3tables"] >= 1)
}

// C05: relation targets.
func caseC05(c *Ctx) {
	cfg := GenCfg(c.R, 0)
	p := DefaultProfile()
	p.Steps = 160
	p.Scale(3, "BuilderNew", "RelSet", "RelExchange", "BuilderAdd", "BatchSetRel", "RelExchangeBatch", "NewBatch")
	p.Scale(2, "Add", "Remove", "Exchange")
	p.Zero("RegisterType")
	p.W["CacheRegister"], p.W["CacheUnregister"] = 4, 1
	p.PCached = 0.3
	p.RelRegs = true
	o := Opts{Model: true, Targets: true, Cache: true, Track: true, Sweep: c.Case%3 == 0, NoTrans: true}
	s := NewSess(cfg, o)
	g := NewGen(c.R, s, p)
	rows := []FaultRow{}
	for _, r := range FaultTable() {
		if strings.HasPrefix(r.Name, "target.dead.") {
			rows = append(rows, r)
		}
	}
	next := c.Case % len(rows)
	for i := 0; i < p.Steps && !s.Failed(); i++ {
		if i > 20 && c.R.Chance(0.12) {
			// a dead or recycled handle as relation target, through every target-taking entry point in turn
			for k := 0; k < len(rows); k++ {
				row := &rows[(next+k)%len(rows)]
				if op := row.Gen(g); op != nil {
					next = (next + k + 1) % len(rows)
					InjectFault(s, row, op)
					break
				}
			}
			continue
		}
		s.Do(g.Next())
	}
	n := s.Cov.N
	finish(c, s, n["target_retained"] >= 1 && n["relation_reset"] >= 1)
}

// C06: target death and table recycling.
func caseC06(c *Ctx) {
	if c.Mode == "wide" {
		caseC06Wide(c)
		return
	}
	cfg := GenCfg(c.R, 0)
	cfg.RelCapInc = Pick(c.R, []int{0, 1, 2})
	p := DefaultProfile()
	p.Steps = 200
	p.MaxEnts = 40
	p.Scale(4, "BuilderNew", "RelSet", "RemoveEntity", "NewBatch")
	p.Scale(3, "BatchRemoveEntities", "BatchSetRel", "RelExchangeBatch", "BatchExchange", "BatchRemove")
	p.W["Reset"] = 2
	p.Zero("RegisterType", "Set", "WritePtr", "Assign")
	o := Opts{Model: true, Inv: true, Targets: true, Sweep: true, Track: true, Cache: true, NoTrans: true}
	s := NewSess(cfg, o)
	g := NewGen(c.R, s, p)
	if c.Case%8 == 5 {
		// more tables on one relation node than fit in one page of the paged storage (32), with their own targets
		rels := g.relsUsed()
		if len(rels) > 0 {
			rel := Pick(c.R, rels)
			ids := append(g.subsetAny(g.nonRels(), 2), rel)
			k := 33 + c.R.Intn(40)
			p.MaxEnts = 3*k + 40
			parents := []*Ent{}
			for i := 0; i < k && !s.Failed(); i++ {
				out := s.Do(&Op{K: "NewEntity", Add: g.subsetAny(g.nonRels(), 1)})
				if len(out.Ents) == 1 {
					parents = append(parents, entP(out.Ents[0]))
				}
			}
			for _, pe := range parents {
				if s.Failed() {
					break
				}
				s.Do(&Op{K: "BuilderNew", Add: ids, Rel: ip(rel), T: pe})
			}
			s.Cov.N["many_targets_on_one_node"]++
		}
	}
	for i := 0; i < p.Steps && !s.Failed(); i++ {
		s.Do(g.Next())
	}
	n := s.Cov.N
	finish(c, s, (n["table_retires"] >= 1 && n["table_reuses"] >= 1) || (!HooksOn && n["death_with_children"] >= 1))
}

// C07: registered filters (shadow comparator part; the batch twin is in C08's machinery).
func caseC07(c *Ctx) {
	cfg := GenCfg(c.R, 0)
	p := DefaultProfile()
	p.Steps = 200
	p.PCached = 0.75
	p.Scale(6, "CacheRegister", "CacheReplace")
	p.Scale(3, "CacheUnregister", "BuilderNew", "RelSet", "RemoveEntity", "BatchRemoveEntities", "BatchSetRel", "BatchExchange", "RelExchangeBatch", "BatchAdd", "BatchRemove")
	p.W["Reset"] = 4
	p.Zero("RegisterType", "Set", "WritePtr")
	if c.Case%8 == 5 {
		// many registrations at a time (a cache may treat "few" and "many" filters differently)
		p.MaxRegs = 17 + c.R.Intn(16)
		p.Steps = 130
		p.Scale(4, "CacheRegister")
		p.RelRegs = true
	}
	if c.Case%32 == 21 {
		// more registrations than fit in a byte-sized counter or in the first block of the ID pool
		p.MaxRegs = 258 + c.R.Intn(40)
		p.Steps = 50
		p.RelRegs = c.R.Chance(0.5)
	}
	o := Opts{Cache: true, Inv: true, Model: c.Case%2 == 0, Track: true}
	s := NewSess(cfg, o)
	g := NewGen(c.R, s, p)
	if p.MaxRegs > 0 {
		for i := 0; i < p.MaxRegs-2 && !s.Failed(); i++ {
			if op := g.gen("CacheRegister"); op != nil {
				s.Do(op)
			}
		}
		s.Cov.N["histories_with_17plus_registrations"]++
		if len(s.regs) > 256 {
			s.Cov.N["histories_with_257plus_registrations"]++
		}
	}
	for i := 0; i < p.Steps && !s.Failed(); i++ {
		op := g.Next()
		if isBatchKind(op.K) && op.K != "NewBatch" && i%2 == 0 {
			if op.Trav%3 != 0 {
				op.Trav %= 2
			}
			if !TwinBatch(s, op, "otherform") {
				break
			}
		} else {
			s.Do(op)
		}
	}
	n := s.Cov.N
	finish(c, s, n["batch_via_cached"] >= 1 && (n["table_retires"] >= 1 || !HooksOn) && n["cache_compares"] >= 20 && n["twin_compares"] >= 1)
}

// C11: entity events.
func caseC11(c *Ctx) {
	if c.Mode == "nested" {
		caseNested(c, false)
		return
	}
	cfg := GenCfg(c.R, 0)
	p := DefaultProfile()
	p.Steps = 170
	p.PEmpty = 0.06
	p.Scale(2, "RelSet", "RelExchange", "BuilderAdd", "BatchSetRel", "RelExchangeBatch", "BatchExchange", "NewBatch", "BatchRemoveEntities")
	p.Zero("RegisterType", "QueryCheck")
	o := Opts{Events: true, Track: true, Model: c.Case%4 == 0}
	s := NewSess(cfg, o)
	g := NewGen(c.R, s, p)
	for i := 0; i < p.Steps && !s.Failed(); i++ {
		op := g.Next()
		if c.Case%3 == 1 && op.Q && isBatchKind(op.K) && op.Ill == "" && s.lsn != nil && i%2 == 0 {
			// the listener is only installed once the batch call has returned its query: the events of a Q variant
			// are due when the query is closed or exhausted, to the listener that is installed then
			s.W.SetListener(nil)
			s.onQueryOpen = func() { s.W.SetListener(s.lsn) }
			s.Do(op)
			s.onQueryOpen = nil
			s.W.SetListener(s.lsn)
			s.Cov.N["listener_installed_while_batch_query_open"]++
			continue
		}
		s.Do(op)
	}
	n := s.Cov.N
	multi := n["ev_cell:relswapped.targetchanged.single"]+n["ev_cell:relswapped.targetchanged.batch"]+n["ev_cell:relkept.targetchanged.single"]+n["ev_cell:relkept.targetchanged.batch"]+
		n["ev_cell:reladded.targetchanged.single"]+n["ev_cell:relremoved.targetchanged.single"] >= 1
	finish(c, s, multi && n["events_checked"] >= 30)
}
