package h

import (
	"bytes"
	"fmt"
	"reflect"
	"unsafe"

	"github.com/mlange-42/arche/ecs"
	"github.com/mlange-42/arche/ecs/event"
)

// recListener subscribes to everything, unrestricted, and records each notification
// together with what the world reports at delivery time.
type recListener struct{ s *Sess }

func (l *recListener) Subscriptions() event.Subscription { return event.All }
func (l *recListener) Components() *ecs.Mask             { return nil }

func (l *recListener) Notify(w *ecs.World, e ecs.EntityEvent) {
	s := l.s
	r := RecEvent{Ev: e, QCall: s.qcalls, Step: s.step, OldRel: -1, NewRel: -1}
	r.Added = s.maskNums(&e.Added)
	r.Removed = s.maskNums(&e.Removed)
	r.AddIDs = sortInts(s.nums(e.AddedIDs))
	r.RemIDs = sortInts(s.nums(e.RemovedIDs))
	if e.OldRelation != nil {
		r.OldRel = s.idNum[*e.OldRelation]
	}
	if e.NewRelation != nil {
		r.NewRel = s.idNum[*e.NewRelation]
	}
	r.Locked = w.IsLocked()
	r.Held = s.open > 0 // the harness itself holds a query open at delivery time
	// "after the change": components supplied with values hold those values when the event is delivered
	if op := s.curOp; op != nil && op.Vals != nil && op.Ill == "" && e.EventTypes&(event.EntityRemoved) == 0 && w.Alive(e.Entity) {
		for i, id := range op.Add {
			if i >= len(op.Vals) || !e.Added.Get(s.IDs[id]) || s.M.Types[id].Size == 0 {
				continue
			}
			p := w.Get(e.Entity, s.IDs[id])
			want := s.M.Types[id].Pat(op.Vals[i])
			if p == nil || !bytes.Equal(unsafe.Slice((*byte)(p), len(want)), want) {
				r.ValueBad = fmt.Sprintf("component %d of %v does not hold the supplied value yet", id, e.Entity)
			}
		}
	}
	r.Alive = w.Alive(e.Entity)
	if r.Alive {
		m := w.Mask(e.Entity)
		r.Mask = s.maskNums(&m)
		rel := -1
		for _, id := range r.Mask {
			if s.M.Types[id].Rel {
				rel = id
			}
		}
		if rel >= 0 {
			r.Target = w.Relations().Get(e.Entity, s.IDs[rel])
		}
	}
	if s.batchAff != nil && !e.Contains(event.EntityRemoved) {
		for o, want := range s.batchAff {
			if !w.Alive(o) {
				r.BatchOK = fmt.Sprintf("affected entity %v not alive at delivery", o)
				break
			}
			m := w.Mask(o)
			if got := s.maskNums(&m); !reflect.DeepEqual(got, want.IDs()) {
				r.BatchOK = fmt.Sprintf("event for %v delivered while affected entity %v still has components %v (after the batch: %v)", e.Entity, o, got, want.IDs())
				break
			}
			if rel := s.M.RelOf(want); rel >= 0 {
				if got := w.Relations().Get(o, s.IDs[rel]); got != want.Target {
					r.BatchOK = fmt.Sprintf("event for %v delivered while affected entity %v still has target %v (after the batch: %v)", e.Entity, o, got, want.Target)
					break
				}
			}
		}
	}
	s.rec = append(s.rec, r)
}

func eqInts(a, b []int) bool {
	if len(a) != len(b) {
		return false
	}
	for i := range a {
		if a[i] != b[i] {
			return false
		}
	}
	return true
}

// checkEvents compares the recorded events of the last op with the model's expectation.
func (s *Sess) checkEvents(op *Op, exp []ExpEvent) {
	byEnt := map[ecs.Entity]*ExpEvent{}
	for i := range exp {
		byEnt[exp[i].Entity] = &exp[i]
	}
	seen := map[ecs.Entity]bool{}
	isQ := op.Q
	for i := range s.rec {
		r := &s.rec[i]
		e := r.Ev.Entity
		x, ok := byEnt[e]
		if !ok {
			s.fail("event.spurious", "event for %v (types %06b) but the entity did not change", e, r.Ev.EventTypes)
			return
		}
		if seen[e] {
			s.fail("event.duplicate", "second event for %v in one operation", e)
			return
		}
		seen[e] = true
		s.Cov.N["events_checked"]++
		if int(r.Ev.EventTypes) != x.Types {
			s.fail("event.types", "event for %v has types %06b, change implies %06b", e, r.Ev.EventTypes, x.Types)
			return
		}
		if !eqInts(r.Added, x.Added) || !eqInts(r.Removed, x.Removed) {
			s.fail("event.masks", "event for %v: Added=%v Removed=%v, actual difference +%v -%v", e, r.Added, r.Removed, x.Added, x.Removed)
			return
		}
		if !eqInts(r.AddIDs, x.Added) || !eqInts(r.RemIDs, x.Removed) {
			s.fail("event.ids", "event for %v: AddedIDs=%v RemovedIDs=%v, actual difference +%v -%v", e, r.AddIDs, r.RemIDs, x.Added, x.Removed)
			return
		}
		if r.OldRel != x.OldRel || r.NewRel != x.NewRel {
			s.fail("event.relation", "event for %v: OldRelation=%d NewRelation=%d, actual %d -> %d", e, r.OldRel, r.NewRel, x.OldRel, x.NewRel)
			return
		}
		if r.Ev.OldTarget != x.OldTarget {
			s.fail("event.oldtarget", "event for %v: OldTarget=%v, actual old target %v", e, r.Ev.OldTarget, x.OldTarget)
			return
		}
		removal := x.Types&EvRemoved != 0
		if !r.Alive {
			s.fail("event.inspect", "event for %v delivered while the entity is not alive", e)
			return
		}
		if removal {
			if !r.Locked {
				s.fail("event.removal.unlocked", "removal event for %v delivered with the world unlocked", e)
				return
			}
			if !eqInts(r.Mask, x.BeforeMask) || r.Target != x.OldTarget {
				s.fail("event.removal.state", "removal event for %v: entity shows %v -> %v at delivery, before-state is %v -> %v", e, r.Mask, r.Target, x.BeforeMask, x.OldTarget)
				return
			}
		} else {
			if r.ValueBad != "" {
				s.fail("event.value", "event delivered before the change was complete: %s", r.ValueBad)
				return
			}
			if r.Locked && !r.Held && s.open == 0 {
				s.fail("event.locked", "event for %v delivered with the world locked", e)
				return
			}
			if !eqInts(r.Mask, x.AfterMask) || r.Target != x.NewTarget {
				s.fail("event.early", "event for %v: entity shows %v -> %v at delivery, after-state is %v -> %v", e, r.Mask, r.Target, x.AfterMask, x.NewTarget)
				return
			}
			if r.BatchOK != "" {
				s.fail("event.batch.early", "%s", r.BatchOK)
				return
			}
			if isQ && r.QCall != s.qcalls {
				s.fail("event.q.early", "event for %v delivered during query call %d, the query ended with call %d", e, r.QCall, s.qcalls)
				return
			}
		}
		s.trace("ev", toEnt(e), int(r.Ev.EventTypes), r.Added, r.Removed, r.OldRel, r.NewRel, toEnt(r.Ev.OldTarget))
		// coverage of the relation x target table
		cell := "ev_cell:"
		switch {
		case x.OldRel < 0 && x.NewRel < 0:
			cell += "norel"
		case x.OldRel < 0:
			cell += "reladded"
		case x.NewRel < 0:
			cell += "relremoved"
		case x.OldRel != x.NewRel:
			cell += "relswapped"
		default:
			cell += "relkept"
		}
		if x.OldTarget != x.NewTarget {
			cell += ".targetchanged"
		} else {
			cell += ".targetsame"
		}
		if len(exp) > 1 || isBatchKind(op.K) {
			cell += ".batch"
		} else {
			cell += ".single"
		}
		s.Cov.N[cell]++
	}
	for e := range byEnt {
		if !seen[e] {
			s.fail("event.missing", "no event for %v which changed (expected types %06b)", e, byEnt[e].Types)
			return
		}
	}
	s.replay(op)
}

// replicaEnt is what a consumer of the event stream knows about an entity.
type replicaEnt struct {
	comps  map[int]bool
	target ecs.Entity
}

// replay applies the events of the last op to a replica that is built from events only
// (created: add with Added; removed: delete; otherwise apply Added/Removed; target as reported by
// Relations.Get at delivery), and compares the replica with the model.
func (s *Sess) replay(op *Op) {
	if s.replica == nil || op.K == "Reset" || op.K == "ResetLoad" || op.K == "LoadEntities" {
		// epoch boundary: no events are specified for these operations
		s.replica = map[ecs.Entity]*replicaEnt{}
		for e, me := range s.M.Alive {
			r := &replicaEnt{comps: map[int]bool{}, target: me.Target}
			for id := range me.Comps {
				r.comps[id] = true
			}
			s.replica[e] = r
		}
		return
	}
	for i := range s.rec {
		r := &s.rec[i]
		e := r.Ev.Entity
		switch {
		case r.Ev.EventTypes&EvCreated != 0:
			re := &replicaEnt{comps: map[int]bool{}, target: r.Target}
			for _, id := range r.Added {
				re.comps[id] = true
			}
			s.replica[e] = re
		case r.Ev.EventTypes&EvRemoved != 0:
			delete(s.replica, e)
		default:
			re := s.replica[e]
			if re == nil {
				s.fail("event.replay", "event for %v which the replayed stream does not know", e)
				return
			}
			for _, id := range r.Added {
				re.comps[id] = true
			}
			for _, id := range r.Removed {
				delete(re.comps, id)
			}
			re.target = r.Target
		}
	}
	if len(s.replica) != len(s.M.Alive) {
		s.fail("event.replay", "replaying the event stream gives %d entities, the world has %d", len(s.replica), len(s.M.Alive))
		return
	}
	for e, me := range s.M.Alive {
		re := s.replica[e]
		if re == nil {
			s.fail("event.replay", "replaying the event stream does not yield entity %v", e)
			return
		}
		if len(re.comps) != len(me.Comps) || re.target != me.Target {
			s.fail("event.replay", "replaying the event stream gives %v components %v target %v, the world has %v target %v", e, re.comps, re.target, me.IDs(), me.Target)
			return
		}
		for id := range me.Comps {
			if !re.comps[id] {
				s.fail("event.replay", "replaying the event stream gives %v without component %d", e, id)
				return
			}
		}
	}
	s.Cov.N["replica_compares"]++
}

func isBatchKind(k string) bool {
	switch k {
	case "NewBatch", "BatchAdd", "BatchRemove", "BatchExchange", "BatchSetRel", "RelExchangeBatch", "BatchRemoveEntities":
		return true
	}
	return false
}
