package h

import (
	"encoding/json"
	"fmt"
	"reflect"
	"sort"

	"github.com/mlange-42/arche/ecs"
)

func init() { CaseFns["C17"] = caseC17 }

func sortedU32(x []uint32) []uint32 {
	r := append([]uint32{}, x...)
	sort.Slice(r, func(i, j int) bool { return r[i] < r[j] })
	return r
}

func mustPanic(f func()) (p bool) {
	defer func() {
		if recover() != nil {
			p = true
		}
	}()
	f()
	return false
}

// C17: entity dump/load.
func caseC17(c *Ctx) {
	if c.Mode == "big" {
		caseBig(c)
		return
	}
	cfg := GenCfg(c.R, 24)
	p := DefaultProfile()
	p.Steps = 60 + c.R.Intn(120)
	p.MaxBatch = 25
	p.Scale(4, "NewBatch", "RemoveEntity", "NewEntity", "BatchRemoveEntities")
	p.Zero("RegisterType", "QueryCheck", "CacheRegister", "CacheUnregister")
	p.W["Reset"] = 1
	a := NewSess(cfg, Opts{Ledger: true, Model: true, Inv: true, NoTrans: true})
	g := NewGen(c.R, a, p)
	for i := 0; i < p.Steps && !a.Failed(); i++ {
		a.Do(g.Next())
	}
	if a.Failed() {
		finish(c, a, false)
		return
	}
	var d ecs.EntityDump
	if c.Case%3 == 1 {
		// a dump taken while a query is open (reading the handle state is not a structural change)
		q := a.W.Query(ecs.All())
		if mustPanic(func() { d = a.W.DumpEntities() }) {
			a.fail("dump.locked", "DumpEntities panicked while a query was open")
		}
		q.Close()
		if a.Failed() {
			finish(c, a, false)
			return
		}
		a.Cov.N["dumps_under_lock"]++
	} else {
		d = a.W.DumpEntities()
	}
	dcopy := ecs.EntityDump{Entities: append([]ecs.Entity{}, d.Entities...), Alive: append([]uint32{}, d.Alive...), Next: d.Next, Available: d.Available}
	aliveAtDump := map[ecs.Entity]bool{}
	for h := range a.M.Ledger {
		aliveAtDump[h] = a.W.Alive(h)
	}
	// free-list shape: walk Next for Available steps
	order := []uint32{}
	cur := d.Next
	for i := uint32(0); i < d.Available && int(cur) < len(d.Entities); i++ {
		order = append(order, cur)
		cur = d.Entities[cur].ID()
	}
	nontrivial := len(order) >= 3 && !sort.SliceIsSorted(order, func(i, j int) bool { return order[i] < order[j] })

	// JSON round trip of handles and of the dump
	for h := range a.M.Ledger {
		b, err := json.Marshal(h)
		if err == nil && a.Cov.N["json_handles"]%3 == 1 {
			// (a save file written for people to read: indented, one number per line)
			b, err = json.MarshalIndent(h, " ", "\t")
		}
		var back ecs.Entity
		if err != nil || json.Unmarshal(b, &back) != nil || back != h {
			a.fail("json.handle", "handle %v changed by a JSON round trip: %s -> %v", h, b, back)
			break
		}
		a.Cov.N["json_handles"]++
	}
	load := d
	if c.Case%2 == 0 && !a.Failed() {
		b, err := json.Marshal(d)
		if err == nil && c.Case%6 == 2 {
			b, err = json.MarshalIndent(d, "", "  ")
			a.Cov.N["json_indented_dumps"]++
		}
		var back ecs.EntityDump
		if c.Case%4 == 0 {
			// decoded into a variable that held another dump before (a program that loads one save after another)
			back = helperDump(c.R, 4+c.R.Intn(30)).d
			a.Cov.N["json_decode_into_reused_dump"]++
		}
		if err != nil || json.Unmarshal(b, &back) != nil {
			a.fail("json.dump", "dump does not survive JSON: %v", err)
		} else {
			load = back
			if len(load.Alive) == 0 && len(d.Alive) == 0 {
				load.Alive = d.Alive
			}
			if !reflect.DeepEqual(load.Entities, d.Entities) || fmt.Sprint(load.Alive) != fmt.Sprint(d.Alive) || load.Next != d.Next || load.Available != d.Available {
				a.fail("json.dump", "dump changed by a JSON round trip")
			}
		}
	}
	if a.Failed() {
		finish(c, a, false)
		return
	}

	// every third case: the dump is kept while the dumped world goes on (it must stay a snapshot); the reference
	// for all later comparisons is then a world rebuilt to the state at dump time
	if c.Case%3 == 1 {
		dumpIdx := len(a.Log)
		more := 10 + c.R.Intn(40)
		for i := 0; i < more && !a.Failed(); i++ {
			a.Do(g.Next())
		}
		if a.Failed() {
			finish(c, a, false)
			return
		}
		ref := Replay(a.Cfg0, Opts{Ledger: true, Model: true, Inv: true, NoTrans: true}, a.Log[:dumpIdx])
		if ref.Failed() {
			a.fail("load.ref.failed", "rebuilding the dump-time state failed: %s", ref.Viol[0].Msg)
			finish(c, a, false)
			return
		}
		ref.Cov = a.Cov
		a = ref
		a.Cov.N["dump_kept_while_source_continued"]++
	}

	// receiving world: fresh or reset, any capacity increment
	cfgB := cfg
	cfgB.CapInc = Pick(c.R, []int{1, 2, 3, 8, 128})
	b := NewSess(cfgB, Opts{Ledger: true, Model: true, Inv: true, NoTrans: true})
	if c.Case%3 == 0 {
		// a used and reset world
		gb := NewGen(c.R, b, p)
		for i := 0; i < 30 && !b.Failed(); i++ {
			b.Do(gb.Next())
		}
		// loading into a world that has or had entities must be refused - and the refusal must leave that world as it
		// was: a big population, a tiny dump, then the world goes on (relation targets and high ids are removed)
		if c.Case%2 == 0 {
			for i := 0; i < 3 && !b.Failed(); i++ {
				b.Do(&Op{K: "NewBatch", Add: gb.subsetAny(gb.nonRels(), 2), N: 60 + c.R.Intn(40)})
			}
		}
		if len(b.M.Alive) > 0 || b.M.Created > 0 {
			refused := load
			if c.Case%2 == 0 {
				refused = helperDump(c.R, 2+c.R.Intn(5)).d
			}
			before := b.PublicSnapshot()
			var core string
			if HooksOn {
				core, _ = hookShape(b.W)
			}
			if !mustPanic(func() { b.W.LoadEntities(&refused) }) {
				a.fail("load.accepted", "LoadEntities accepted on a world that has or had entities (alive %d, created %d) without Reset", len(b.M.Alive), b.M.Created)
			} else if after := b.PublicSnapshot(); after != before {
				a.fail("load.refused.changed", "the refused LoadEntities changed the world: %s", firstDiff(before, after))
			} else if HooksOn {
				if c2, _ := hookShape(b.W); c2 != core {
					a.fail("load.refused.changed", "the refused LoadEntities changed hidden state: %s", firstDiff(core, c2))
				}
			}
			a.Cov.N["load_refused"]++
			pb := p.Clone()
			pb.MaxEnts = len(b.M.Alive) + 20
			pb.Scale(4, "RemoveEntity", "BatchRemoveEntities", "BuilderNew", "RelSet")
			gb2 := NewGen(c.R, b, pb)
			for i := 0; i < 40 && !b.Failed() && !a.Failed(); i++ {
				b.Do(gb2.Next())
			}
		}
		b.Do(&Op{K: "Reset"})
	}
	if b.Failed() {
		a.fail("load.twin.failed", "receiving world failed before the load: %s", b.Viol[0].Msg)
	}
	if a.Failed() {
		finish(c, a, false)
		return
	}
	if p := mustPanic(func() { b.W.LoadEntities(&load) }); p {
		a.fail("load.panic", "LoadEntities panicked on a fresh/reset world")
		finish(c, a, false)
		return
	}
	// B's model: the same alive set without components
	b.M.Alive = map[ecs.Entity]*MEnt{}
	b.M.Ledger = map[ecs.Entity]bool{}
	for h := range a.M.Ledger {
		b.M.Ledger[h] = true
	}
	for e := range a.M.Alive {
		b.M.Alive[e] = &MEnt{Comps: map[int][]byte{}}
	}
	b.M.Created, b.M.Removed = a.M.Created, a.M.Removed
	b.CheckWorld()
	if err := hookInv(b.W); err != nil && !b.Failed() {
		b.fail("inv", "%v", err)
	}
	if b.Failed() {
		a.fail("load.state", "after LoadEntities: %s", b.Viol[0].Msg)
	}
	for h := range a.M.Ledger {
		if a.W.Alive(h) != b.W.Alive(h) {
			a.fail("load.alive", "Alive(%v) is %v in the dumped world and %v after loading", h, a.W.Alive(h), b.W.Alive(h))
			break
		}
		a.Cov.N["alive_compares"]++
	}
	if d2 := b.W.DumpEntities(); !a.Failed() && (!reflect.DeepEqual(d2.Entities, d.Entities) || fmt.Sprint(d2.Alive) != fmt.Sprint(d.Alive) || d2.Next != d.Next || d2.Available != d.Available) {
		a.fail("load.dump", "a dump taken right after loading differs: %+v vs %+v", d2, d)
	}
	// the same creations and removals on both
	steps := 40 + c.R.Intn(60)
	for i := 0; i < steps && !a.Failed(); i++ {
		var op *Op
		alive := a.M.AliveSorted()
		switch c.R.Weighted([]int{4, 4, 2}) {
		case 0:
			op = &Op{K: "NewEntity"}
		case 1:
			if len(alive) == 0 {
				continue
			}
			op = &Op{K: "RemoveEntity", E: entP(Pick(c.R, alive))}
		default:
			op = &Op{K: "NewBatch", N: 1 + c.R.Intn(12), Q: c.R.Chance(0.5)}
		}
		oa := a.Do(op)
		if a.Failed() {
			break
		}
		ob := b.Do(op)
		if b.Failed() {
			a.fail("load.future.failed", "%s works on the dumped world but fails on the loaded one: %s", op.K, b.Viol[0].Msg)
			break
		}
		if fmt.Sprint(oa.Ents) != fmt.Sprint(ob.Ents) || !sameEntSet(oa.Created, ob.Created) {
			a.fail("load.future", "%s issued %v %v in the dumped world, %v %v in the loaded world", op.K, oa.Ents, oa.Created, ob.Ents, ob.Created)
			break
		}
		if op.Q && oa.QFull && ob.QFull && fmt.Sprint(oa.QEnts) != fmt.Sprint(ob.QEnts) {
			a.fail("load.future", "NewBatchQ iterated %v in the dumped world, %v in the loaded world", oa.QEnts, ob.QEnts)
			break
		}
		a.Cov.N["future_ops_compared"]++
		if i%10 == 9 {
			da, db := a.W.DumpEntities(), b.W.DumpEntities()
			if !reflect.DeepEqual(da.Entities, db.Entities) || da.Next != db.Next || da.Available != db.Available || fmt.Sprint(sortedU32(da.Alive)) != fmt.Sprint(sortedU32(db.Alive)) {
				a.fail("load.laterdump", "later dumps differ: %+v vs %+v", da, db)
				break
			}
		}
	}
	// the dump is a value: nothing the dumped or the loaded world did afterwards may have changed it,
	// and loading it a second time gives the dump-time state again
	if !a.Failed() {
		if !reflect.DeepEqual(d.Entities, dcopy.Entities) || fmt.Sprint(d.Alive) != fmt.Sprint(dcopy.Alive) || d.Next != dcopy.Next || d.Available != dcopy.Available {
			a.fail("dump.mutated", "the dump changed after it was taken (the worlds went on): %+v, at dump time %+v", d, dcopy)
		}
	}
	if !a.Failed() && c.Case%2 == 1 {
		cw := ecs.NewWorld(ecs.NewConfig().WithCapacityIncrement(Pick(c.R, []int{1, 2, 128})))
		cw.LoadEntities(&d)
		for h, want := range aliveAtDump {
			if cw.Alive(h) != want {
				a.fail("load.second", "after loading the same dump a second time Alive(%v)=%v, at dump time %v", h, cw.Alive(h), want)
				break
			}
		}
		a.Cov.N["second_loads"]++
	}
	finish(c, a, nontrivial)
}

// keptDump is an entity dump taken earlier in a history, with the model state at that time.
type keptDump struct {
	d                ecs.EntityDump
	alive            []ecs.Entity
	ledger           map[ecs.Entity]bool
	created, removed int
	step             int
}

func init() {
	// DumpKeep takes a dump and keeps it while the world goes on; ResetLoad resets the world and loads it.
	extraCalls["DumpKeep"] = func(s *Sess, op *Op, out *Outcome) {
		k := &keptDump{d: s.W.DumpEntities(), alive: s.M.AliveSorted(), ledger: map[ecs.Entity]bool{}, created: s.M.Created, removed: s.M.Removed, step: s.step}
		for h := range s.M.Ledger {
			k.ledger[h] = true
		}
		s.kept = k
	}
	extraApply["DumpKeep"] = func(s *Sess, op *Op, out *Outcome) []ExpEvent { return nil }
	extraCalls["ResetLoad"] = func(s *Sess, op *Op, out *Outcome) {
		s.W.Reset()
		s.W.LoadEntities(&s.kept.d)
	}
	extraApply["ResetLoad"] = func(s *Sess, op *Op, out *Outcome) []ExpEvent {
		k := s.kept
		s.kept = nil
		s.M.Reset()
		s.Res.Reset()
		for _, e := range k.alive {
			s.M.Alive[e] = &MEnt{Comps: map[int][]byte{}}
		}
		for h := range k.ledger {
			s.M.Ledger[h] = true
		}
		s.M.Created, s.M.Removed = k.created, k.removed
		s.Cov.N["dump_kept_then_loaded"]++
		return nil
	}
	// LoadKept loads the kept dump into a world that is fresh or was just reset (resources may already be there).
	extraCalls["LoadKept"] = func(s *Sess, op *Op, out *Outcome) {
		s.W.LoadEntities(&s.kept.d)
	}
	extraApply["LoadKept"] = func(s *Sess, op *Op, out *Outcome) []ExpEvent {
		k := s.kept
		s.kept = nil
		s.M.Reset()
		for _, e := range k.alive {
			s.M.Alive[e] = &MEnt{Comps: map[int][]byte{}}
		}
		for h := range k.ledger {
			s.M.Ledger[h] = true
		}
		s.M.Created, s.M.Removed = k.created, k.removed
		s.Cov.N["dump_loaded_into_world_with_resources"]++
		return nil
	}
	extraGen["DumpKeep"] = func(g *Gen) *Op {
		if g.S.kept != nil || g.S.open > 0 {
			return nil
		}
		return &Op{K: "DumpKeep"}
	}
	extraGen["ResetLoad"] = func(g *Gen) *Op {
		if g.S.kept == nil || g.S.step-g.S.kept.step < 8 {
			return nil
		}
		return &Op{K: "ResetLoad"}
	}
}

// helperDump builds an EntityDump from a scratch world: n entities created, a random part of them removed.
func helperDump(r *Rng, n int) *keptDump {
	sw := ecs.NewWorld(ecs.NewConfig().WithCapacityIncrement(Pick(r, []int{128, 1, 16, 300})))
	ents := []ecs.Entity{}
	for i := 0; i < n; i++ {
		ents = append(ents, sw.NewEntity())
	}
	Shuffle(r, ents)
	kill := r.Intn(len(ents)/2 + 1)
	for _, e := range ents[:kill] {
		sw.RemoveEntity(e)
	}
	alive := append([]ecs.Entity{}, ents[kill:]...)
	sortEnts(alive)
	k := &keptDump{d: sw.DumpEntities(), alive: alive, ledger: map[ecs.Entity]bool{}, created: n, removed: kill}
	for _, e := range ents {
		k.ledger[e] = true
	}
	return k
}
