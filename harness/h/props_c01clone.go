package h

import (
	"fmt"

	"github.com/mlange-42/arche/ecs"
)

type cloneA struct{ X, Y float64 }
type cloneB struct {
	N uint64
	S [5]uint32
}

// cloneChain supplies component values by pointers into the world's own storage (the "clone this entity" idiom:
// Comp: w.Get(template, id)), where the template lives in the very table the new entity goes to, across every
// capacity increment of that table. Every clone must hold the template's values.
func cloneChain(c *Ctx) bool {
	R := c.R
	inc := Pick(R, []int{1, 2, 3, 8, 16, 128})
	w := ecs.NewWorld(ecs.NewConfig().WithCapacityIncrement(inc))
	for i := 0; i < R.Intn(3); i++ {
		ecs.TypeID(&w, TypeOfKey(fmt.Sprintf("F%d", 9900+i)))
	}
	idA, idB := ecs.ComponentID[cloneA](&w), ecs.ComponentID[cloneB](&w)
	wantA := cloneA{X: 1.5 + float64(R.Intn(100)), Y: -2.5}
	wantB := cloneB{N: R.U64() | 1, S: [5]uint32{1, 2, 3, 4, uint32(R.Intn(1000)) + 1}}
	tmpl := w.NewEntityWith(ecs.Component{ID: idA, Comp: &wantA}, ecs.Component{ID: idB, Comp: &wantB})
	all := []ecs.Entity{tmpl}
	n := 2*inc + 3 + R.Intn(10)
	for i := 0; i < n; i++ {
		src := tmpl
		if R.Chance(0.5) {
			src = all[len(all)-1]
		}
		var e ecs.Entity
		how := R.Intn(4)
		switch how {
		case 0:
			e = w.NewEntityWith(ecs.Component{ID: idA, Comp: (*cloneA)(w.Get(src, idA))}, ecs.Component{ID: idB, Comp: (*cloneB)(w.Get(src, idB))})
		case 1:
			e = w.NewEntity()
			w.Assign(e, ecs.Component{ID: idA, Comp: (*cloneA)(w.Get(src, idA))}, ecs.Component{ID: idB, Comp: (*cloneB)(w.Get(src, idB))})
		case 2:
			e = ecs.NewBuilderWith(&w, ecs.Component{ID: idA, Comp: (*cloneA)(w.Get(src, idA))}, ecs.Component{ID: idB, Comp: (*cloneB)(w.Get(src, idB))}).New()
		default:
			e = w.NewEntity(idA, idB)
			w.Set(e, idA, (*cloneA)(w.Get(src, idA)))
			w.Set(e, idB, (*cloneB)(w.Get(src, idB)))
		}
		all = append(all, e)
		for _, x := range []ecs.Entity{e, tmpl, src} {
			if a, b := *(*cloneA)(w.Get(x, idA)), *(*cloneB)(w.Get(x, idB)); a != wantA || b != wantB {
				c.Fail(Violation{Kind: "clone.value", Msg: fmt.Sprintf("clone %d (way %d, capacity increment %d): %v holds %v / %v, the template was given %v / %v", i, how, inc, x, a, b, wantA, wantB)}, nil)
				return false
			}
		}
		c.Cov.N["clones_checked"]++
	}
	return true
}
