package h

import (
	"fmt"
	"reflect"
	"sort"

	"github.com/mlange-42/arche/ecs"
	"github.com/mlange-42/arche/generic"
)

func init() { CaseFns["C20"] = caseC20 }

// resAcc gives typed (generic) access to a resource of a static type.
type resAcc struct {
	add    func(w *ecs.World, v any) // generic.Resource[T].Add
	addFn  func(w *ecs.World, v any) // ecs.AddResource[T]
	get    func(w *ecs.World) any    // generic.Resource[T].Get (nil if absent)
	getFn  func(w *ecs.World) any    // ecs.GetResource[T]
	has    func(w *ecs.World) bool
	remove func(w *ecs.World)
	id     func(w *ecs.World) ecs.ResID
	fork   func() resAcc // a by-value copy of a long-lived mapper, taken now (nil for stateless accessors)
}

// persistent returns accessors bound to ONE generic.Resource[T] mapper that lives as long as the session
// (a long-lived mapper must keep agreeing with the world when the resource changes through other paths).
func mkPersistent[T any](w *ecs.World) resAcc {
	return bindResource(generic.NewResource[T](w))
}

func bindResource[T any](r generic.Resource[T]) resAcc {
	nilIfNil := func(p *T) any {
		if p == nil {
			return nil
		}
		return p
	}
	return resAcc{
		add:    func(_ *ecs.World, v any) { r.Add(v.(*T)) },
		get:    func(_ *ecs.World) any { return nilIfNil(r.Get()) },
		has:    func(_ *ecs.World) bool { return r.Has() },
		remove: func(_ *ecs.World) { r.Remove() },
		id:     func(_ *ecs.World) ecs.ResID { return r.ID() },
		fork:   func() resAcc { return bindResource(r) },
	}
}

var resPersistent = map[string]func(w *ecs.World) resAcc{
	"S0": mkPersistent[G0], "S1": mkPersistent[G1], "S2": mkPersistent[G2], "S3": mkPersistent[G3], "S4": mkPersistent[G4], "S5": mkPersistent[G5],
	"S6": mkPersistent[G6], "S7": mkPersistent[G7], "S8": mkPersistent[G8], "S9": mkPersistent[G9], "S10": mkPersistent[G10], "S11": mkPersistent[G11],
	"R0": mkPersistent[RelA], "R1": mkPersistent[RelB],
	"Q0": mkPersistent[*G0], "Q1": mkPersistent[*G1], "Q2": mkPersistent[**G0], "Q3": mkPersistent[int], "Q4": mkPersistent[[]G0],
	"Q5": mkPersistent[map[string]int], "Q6": mkPersistent[fmt.Stringer],
}

func mkRes[T any]() resAcc {
	nilIfNil := func(p *T) any {
		if p == nil {
			return nil
		}
		return p
	}
	return resAcc{
		add:    func(w *ecs.World, v any) { r := generic.NewResource[T](w); r.Add(v.(*T)) },
		addFn:  func(w *ecs.World, v any) { ecs.AddResource[T](w, v.(*T)) },
		get:    func(w *ecs.World) any { r := generic.NewResource[T](w); return nilIfNil(r.Get()) },
		getFn:  func(w *ecs.World) any { return nilIfNil(ecs.GetResource[T](w)) },
		has:    func(w *ecs.World) bool { r := generic.NewResource[T](w); return r.Has() },
		remove: func(w *ecs.World) { r := generic.NewResource[T](w); r.Remove() },
		id:     func(w *ecs.World) ecs.ResID { return ecs.ResourceID[T](w) },
	}
}

var resAccs = map[string]resAcc{
	"S0": mkRes[G0](), "S1": mkRes[G1](), "S2": mkRes[G2](), "S3": mkRes[G3](), "S4": mkRes[G4](), "S5": mkRes[G5](),
	"S6": mkRes[G6](), "S7": mkRes[G7](), "S8": mkRes[G8](), "S9": mkRes[G9](), "S10": mkRes[G10](), "S11": mkRes[G11](),
	"R0": mkRes[RelA](), "R1": mkRes[RelB](),
	"Q0": mkRes[*G0](), "Q1": mkRes[*G1](), "Q2": mkRes[**G0](), "Q3": mkRes[int](), "Q4": mkRes[[]G0](),
	"Q5": mkRes[map[string]int](), "Q6": mkRes[fmt.Stringer](),
}

func ptrOf(x any) uintptr {
	if x == nil {
		return 0
	}
	return reflect.ValueOf(x).Pointer()
}

// checkResources compares Has/Get of every resource type, through all access paths, with the model.
func checkResources(s *Sess) bool {
	w := s.W
	// the list of resource IDs is the caller's to keep and to change; it must always be the registration log
	ids := ecs.ResourceIDs(w)
	if len(ids) != len(s.ResIDs) {
		s.fail("res.ids", "ResourceIDs lists %d types, %d were registered", len(ids), len(s.ResIDs))
		return false
	}
	for i, id := range scribbledRes(ids) {
		if id != s.ResIDs[i] {
			s.fail("res.ids", "ResourceIDs()[%d] is not the %d-th registered resource type", i, i)
			return false
		}
	}
	for i, id := range s.ResIDs {
		want, present := s.Res.Present[i]
		if w.Resources().Has(id) != present {
			s.fail("res.has", "Resources.Has(%d)=%v, model says %v", i, w.Resources().Has(id), present)
			return false
		}
		got := w.Resources().Get(id)
		if present {
			if got == nil || ptrOf(got) != ptrOf(want) || reflect.TypeOf(got) != reflect.TypeOf(want) {
				s.fail("res.get", "Resources.Get(%d) does not return the exact pointer that was added", i)
				return false
			}
		} else if got != nil {
			s.fail("res.get.absent", "Resources.Get(%d) of an absent resource is %v, not nil", i, got)
			return false
		}
		if acc, ok := resAccs[s.ResKeys[i]]; ok {
			for name, f := range map[string]func(*ecs.World) any{"generic.Resource.Get": acc.get, "ecs.GetResource": acc.getFn} {
				var g any
				if p := func() (p any) {
					defer func() { p = recover() }()
					g = f(w)
					return nil
				}(); p != nil {
					s.fail("res.generic.panic", "%s for resource %d (present=%v) panicked: %v", name, i, present, p)
					return false
				}
				if ptrOf(g) != ptrOf(want) || (present != (g != nil)) {
					s.fail("res.generic.get", "%s for resource %d returns %v, model has present=%v", name, i, g, present)
					return false
				}
			}
			if acc.has(w) != present {
				s.fail("res.generic.has", "generic.Resource.Has for resource %d = %v, model %v", i, acc.has(w), present)
				return false
			}
			for _, pm := range s.resMappers[s.ResKeys[i]] {
				var g any
				if p := func() (p any) {
					defer func() { p = recover() }()
					g = pm.get(w)
					return nil
				}(); p != nil {
					s.fail("res.generic.panic", "a long-lived generic.Resource mapper for resource %d (present=%v) panicked in Get: %v", i, present, p)
					return false
				}
				if ptrOf(g) != ptrOf(want) || (present != (g != nil)) || pm.has(w) != present || pm.id(w) != id {
					s.fail("res.generic.mapper", "a long-lived generic.Resource mapper for resource %d returns %p (has=%v), the world holds %p (present=%v)", i, g, pm.has(w), want, present)
					return false
				}
				s.Cov.N["res_persistent_mapper_checks"]++
			}
			if acc.id(w) != id {
				s.fail("res.generic.id", "ResourceID[T] differs from ResourceTypeID for resource %d", i)
				return false
			}
			s.Cov.N["res_generic_checks"]++
		}
		s.Cov.N["res_checks"]++
	}
	return true
}

// C20: resources.
func caseC20(c *Ctx) {
	limit := ecs.MaskTotalBits
	cfg := GenCfg(c.R, 30)
	s := NewSess(cfg, Opts{Model: c.Case%3 == 0, Track: true, NoTrans: true})
	p := DefaultProfile()
	p.Zero("RegisterType")
	g := NewGen(c.R, s, p)
	// resource types: static ones (generic access) and fillers; up to the limit in some cases
	nRes := 3 + c.R.Intn(12)
	if c.Case%8 == 0 {
		nRes = limit - c.R.Intn(3)
	}
	keys := []string{"S0", "S1", "S2", "S3", "S4", "S5", "S6", "S7", "S8", "S9", "S10", "S11", "R0", "R1", "Q0", "Q1", "Q2", "Q3", "Q4", "Q5", "Q6"}
	Shuffle(c.R, keys)
	keys = keys[:c.R.Intn(len(keys)+1)]
	for i := 0; len(keys) < nRes; i++ {
		keys = append(keys, fmt.Sprintf("F%d", 6000+i))
	}
	Shuffle(c.R, keys)
	keys = keys[:nRes]
	registered := 0
	held := []ecs.Query{}
	steps := 150
	// how often the resources are looked at: an observation through a long-lived mapper may refresh whatever the
	// mapper keeps, so some histories change resources several times between two looks
	every := Pick(c.R, []int{1, 1, 2, 3, 5, 8})
	if c.Case%8 == 0 && c.Case%16 == 0 {
		// every resource type of a full registry present at the same time, then Reset
		for len(keys) < limit {
			keys = append(keys, fmt.Sprintf("F%d", 6300+len(keys)))
		}
		for _, k := range keys {
			s.resRegister(k)
		}
		registered = len(keys)
		for id := range s.ResIDs {
			v := reflect.New(TypeOfKey(s.ResKeys[id])).Interface()
			if acc, gen := resAccs[s.ResKeys[id]]; gen && id%2 == 0 {
				acc.add(s.W, v)
			} else {
				s.W.Resources().Add(s.ResIDs[id], v)
			}
			s.Res.Present[id] = v
			s.keep = append(s.keep, v)
		}
		if checkResources(s) {
			s.Do(&Op{K: "Reset"})
			if !s.Failed() {
				checkResources(s)
			}
		}
		s.Cov.N["full_registry_all_present_then_reset"]++
	}
	if c.Case%20 == 11 {
		// many resets in a row (simulation runs in a loop): a resource added once and never touched again must be
		// gone after every one of them, and a resource added in each run must be the one that is found
		for len(s.ResIDs) < 2 {
			s.resRegister(fmt.Sprintf("F%d", 6500+len(s.ResIDs)))
		}
		once := reflect.New(TypeOfKey(s.ResKeys[0])).Interface()
		s.W.Resources().Add(s.ResIDs[0], once)
		s.keep = append(s.keep, once)
		runs := 300 + c.R.Intn(300)
		for r := 0; r < runs && !s.Failed(); r++ {
			s.W.Reset()
			if s.W.Resources().Has(s.ResIDs[0]) || s.W.Resources().Get(s.ResIDs[0]) != nil {
				s.fail("res.reset", "after %d resets a resource that was added before the first one and never again is present", r+1)
				break
			}
			v := reflect.New(TypeOfKey(s.ResKeys[1])).Interface()
			if s.W.Resources().Has(s.ResIDs[1]) {
				s.fail("res.reset", "after %d resets the resource of the previous run is still present", r+1)
				break
			}
			s.W.Resources().Add(s.ResIDs[1], v)
			if ptrOf(s.W.Resources().Get(s.ResIDs[1])) != ptrOf(v) {
				s.fail("res.get", "run %d: Get does not return the pointer added in this run", r)
			}
		}
		s.W.Reset()
		s.Cov.N["reset_marathons"]++
	}
	for i := 0; i < steps && !s.Failed(); i++ {
		switch c.R.Weighted([]int{3, 6, 4, 5, 1, 2, 2, 2}) {
		case 0: // register the next resource type
			if registered < len(keys) && len(s.ResIDs) < limit {
				before := len(s.ResIDs)
				s.resRegister(keys[registered])
				registered++
				if len(s.ResIDs) != before+1 {
					s.fail("res.register", "registering resource type %s did not yield a new ID", keys[registered-1])
				}
			}
		case 1: // add
			cands := []int{}
			for id := range s.ResIDs {
				if _, ok := s.Res.Present[id]; !ok {
					cands = append(cands, id)
				}
			}
			if len(cands) == 0 {
				continue
			}
			id := Pick(c.R, cands)
			v := reflect.New(TypeOfKey(s.ResKeys[id])).Interface()
			acc, gen := resAccs[s.ResKeys[id]]
			s.Cov.Ops["ResAdd"]++
			if mk, ok := resPersistent[s.ResKeys[id]]; ok && c.R.Chance(0.4) {
				if have := s.resMappers[s.ResKeys[id]]; len(have) < 3 {
					if s.resMappers == nil {
						s.resMappers = map[string][]resAcc{}
					}
					if len(have) > 0 && c.R.Chance(0.5) {
						s.resMappers[s.ResKeys[id]] = append(have, Pick(c.R, have).fork())
						s.Cov.N["res_mapper_copies"]++
					} else {
						s.resMappers[s.ResKeys[id]] = append(have, mk(s.W))
					}
				}
			}
			if pms := s.resMappers[s.ResKeys[id]]; len(pms) > 0 && c.R.Chance(0.3) {
				pm := Pick(c.R, pms)
				pm.add(s.W, v)
				s.Res.Present[id] = v
				s.keep = append(s.keep, v)
				break
			}
			switch {
			case gen && c.R.Chance(0.35):
				acc.add(s.W, v)
			case gen && c.R.Chance(0.5):
				acc.addFn(s.W, v)
			default:
				if !gen && s.ResKeys[id][0] == 'F' && c.R.Chance(0.3) {
					// the ID-based API stores whatever pointer it is given under the ID (no typed accessor exists for
					// these filler types, so nothing ever asserts the type)
					v = Pick(c.R, []any{new(int), &struct{ A, B string }{"x", "y"}, &[]int{1, 2}, new(any)})
					s.Cov.N["res_foreign_pointer_types"]++
				}
				s.W.Resources().Add(s.ResIDs[id], v)
			}
			s.Res.Present[id] = v
			s.keep = append(s.keep, v)
		case 2: // remove
			cands := []int{}
			for id := range s.Res.Present {
				cands = append(cands, id)
			}
			if len(cands) == 0 {
				continue
			}
			sort.Ints(cands)
			id := Pick(c.R, cands)
			s.Cov.Ops["ResRemove"]++
			if pms := s.resMappers[s.ResKeys[id]]; len(pms) > 0 && c.R.Chance(0.3) {
				Pick(c.R, pms).remove(s.W)
			} else if acc, gen := resAccs[s.ResKeys[id]]; gen && c.R.Chance(0.5) {
				acc.remove(s.W)
			} else {
				s.W.Resources().Remove(s.ResIDs[id])
			}
			delete(s.Res.Present, id)
		case 3: // entity operations in between
			if len(held) == 0 {
				s.Do(g.Next())
			}
		case 4: // Reset removes all resources
			if len(held) == 0 {
				s.Do(&Op{K: "Reset"})
				if c.R.Chance(0.5) && !s.Failed() {
					// resources added to the reset world, then entities loaded from a dump: loading is an entity operation
					for id := range s.ResIDs {
						if c.R.Chance(0.5) {
							v := reflect.New(TypeOfKey(s.ResKeys[id])).Interface()
							s.W.Resources().Add(s.ResIDs[id], v)
							s.Res.Present[id] = v
							s.keep = append(s.keep, v)
						}
					}
					s.kept = helperDump(c.R, 3+c.R.Intn(40))
					s.Do(&Op{K: "LoadKept"})
					if !s.Failed() && !checkResources(s) {
						break
					}
				}
			} else {
				// a Reset that is refused because the world is locked leaves the resources alone
				if !mustPanic(func() { s.W.Reset() }) {
					s.fail("illegal.nopanic:locked.Reset", "Reset returned normally on a locked world")
					break
				}
				d := helperDump(c.R, 3)
				if !mustPanic(func() { s.W.LoadEntities(&d.d) }) {
					s.fail("illegal.nopanic:locked.LoadEntities", "LoadEntities returned normally on a locked world")
					break
				}
				s.Cov.N["res_rejected_resets_while_locked"]++
				if !checkResources(s) {
					break
				}
			}
		case 5: // hold a query open: resources are independent of world locking
			if len(held) < 3 {
				held = append(held, s.W.Query(ecs.All()))
				s.open = len(held)
				s.Cov.N["res_ops_while_locked"]++
			}
		case 6:
			if len(held) > 0 {
				held[len(held)-1].Close()
				held = held[:len(held)-1]
				s.open = len(held)
			}
		case 7: // strict add / remove: present add and absent remove must panic without effect
			if len(s.ResIDs) == 0 {
				continue
			}
			id := c.R.Intn(len(s.ResIDs))
			_, present := s.Res.Present[id]
			acc, gen := resAccs[s.ResKeys[id]]
			useGen := gen && c.R.Chance(0.5)
			if pms := s.resMappers[s.ResKeys[id]]; len(pms) > 0 && c.R.Chance(0.4) {
				acc, useGen = Pick(c.R, pms), true
			}
			var ok bool
			if present {
				v := reflect.New(TypeOfKey(s.ResKeys[id])).Interface()
				ok = mustPanic(func() {
					if useGen {
						acc.add(s.W, v)
					} else {
						s.W.Resources().Add(s.ResIDs[id], v)
					}
				})
				if !ok {
					s.fail("res.dup.nopanic", "adding resource %d which is present did not panic", id)
				}
			} else {
				ok = mustPanic(func() {
					if useGen {
						acc.remove(s.W)
					} else {
						s.W.Resources().Remove(s.ResIDs[id])
					}
				})
				if !ok {
					s.fail("res.missing.nopanic", "removing resource %d which is absent did not panic", id)
				}
			}
			s.Cov.N["res_strict_faults"]++
		}
		if s.Failed() {
			break
		}
		if i%every != 0 && i != steps-1 {
			s.Cov.N["res_steps_unobserved"]++
			continue
		}
		if !checkResources(s) {
			break
		}
		// asking for a resource whose type this world has never seen: must be nil, whatever else is present
		if c.R.Chance(0.08) && len(s.ResIDs) < limit {
			unknown := []string{}
			for k := range resAccs {
				if !contains2(s.ResKeys, k) && !contains2(keys, k) {
					unknown = append(unknown, k)
				}
			}
			if len(unknown) > 0 {
				sortStrings(unknown)
				k := Pick(c.R, unknown)
				var got any
				if p := func() (p any) {
					defer func() { p = recover() }()
					got = resAccs[k].getFn(s.W)
					return nil
				}(); p != nil {
					s.fail("res.unknown.panic", "GetResource for a type never added or registered in this world panicked: %v", p)
					break
				}
				if got != nil {
					s.fail("res.unknown.get", "GetResource for a type never added or registered in this world returned %v", got)
					break
				}
				// the call may have registered the type; keep the registration log in step
				if ids := ecs.ResourceIDs(s.W); len(ids) == len(s.ResIDs)+1 {
					s.ResIDs = append(s.ResIDs, ids[len(ids)-1])
					s.ResKeys = append(s.ResKeys, k)
				}
				s.Cov.N["res_unknown_type_gets"]++
				if !checkResources(s) {
					break
				}
			}
		}
	}
	for _, q := range held {
		q.Close()
	}
	s.open = 0
	// resource IDs are independent of component IDs: registration order decides
	if !s.Failed() {
		for i, id := range scribbledRes(ecs.ResourceIDs(s.W)) {
			if i >= len(s.ResIDs) || id != s.ResIDs[i] {
				s.fail("res.ids", "ResourceIDs()[%d] is not the %d-th registered resource type", i, i)
				break
			}
			if HooksOn && hookResIDValue(id) != i {
				s.fail("res.ids", "the %d-th registered resource type has ID %d", i, hookResIDValue(id))
				break
			}
		}
	}
	c.Cov.Merge(s.Cov)
	c.Sample(map[string]any{"case": c.Case, "resource_types": keys[:min(len(keys), 10)], "registered": registered})
	if s.Failed() {
		for _, v := range s.Viol {
			c.Fail(v, map[string]any{"keys": keys})
		}
		return
	}
	if s.Cov.N["res_generic_checks"] > 0 && s.Cov.N["res_strict_faults"] > 0 && s.Cov.Ops["ResRemove"] > 0 {
		c.NonTrivial(HashStr(fmt.Sprint(keys, c.Case)))
	}
}

func contains2(xs []string, x string) bool {
	for _, y := range xs {
		if x == y {
			return true
		}
	}
	return false
}
