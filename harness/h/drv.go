package h

import (
	"encoding/json"
	"fmt"
	"os"
	"path/filepath"
	"runtime/debug"
	"sort"
	"strconv"
)

// Ctx is the context of one case of a property check.
type Ctx struct {
	Prop, Tier, Flavor, Mode string
	Seed                     uint64
	Case                     int
	R                        *Rng
	Cov                      *Cov
	viol                     []Violation
	witness                  any
	nontrivial               []uint64
	samples                  []any
	wantSample               bool
	transcript               uint64
	extraEvals               int
	hasTranscript            bool
}

// AddEvaluations counts additional executions performed inside this case (e.g. twin worlds).
func (c *Ctx) AddEvaluations(n int) { c.extraEvals += n }

// Transcript records the case's transcript hash for cross-process comparison.
func (c *Ctx) Transcript(h uint64) { c.transcript, c.hasTranscript = h, true }

// Fail records a violation with a witness (any JSON-serializable value).
func (c *Ctx) Fail(v Violation, witness any) {
	c.viol = append(c.viol, v)
	if c.witness == nil {
		c.witness = witness
	}
}

// NonTrivial marks the case (identified by hash) as non-trivial by the property's rule.
func (c *Ctx) NonTrivial(hash uint64) { c.nontrivial = append(c.nontrivial, hash) }

// Sample offers a sample for the evidence file (kept for the first cases only).
func (c *Ctx) Sample(x any) {
	if c.wantSample && len(c.samples) < 2 {
		c.samples = append(c.samples, x)
	}
}

// WantSample reports whether a sample would be kept.
func (c *Ctx) WantSample() bool { return c.wantSample && len(c.samples) < 2 }

// RepViolation is a violation in a child report.
type RepViolation struct {
	Case    int    `json:"case"`
	Kind    string `json:"kind"`
	Msg     string `json:"msg"`
	Witness string `json:"witness"`
}

// Report is what a child writes.
type Report struct {
	Prop        string         `json:"prop"`
	Flavor      string         `json:"flavor"`
	Mode        string         `json:"mode"`
	Tier        string         `json:"tier"`
	Seed        uint64         `json:"seed"`
	From        int            `json:"from"`
	Cases       int            `json:"cases"`
	Evaluations int            `json:"evaluations"`
	NonTrivial  []uint64       `json:"nontrivial"`
	Cov         *Cov           `json:"cov"`
	Samples     []any          `json:"samples"`
	Violations  []RepViolation `json:"violations"`
	Hooks       bool           `json:"hooks"`
	Done        bool           `json:"done"`
	Transcripts map[int]uint64 `json:"transcripts,omitempty"`
}

// Witness is the replay file format.
type Witness struct {
	Prop      string      `json:"prop"`
	Flavor    string      `json:"flavor"`
	Mode      string      `json:"mode"`
	Tier      string      `json:"tier"`
	Seed      uint64      `json:"seed"`
	Case      int         `json:"case"`
	Violation []Violation `json:"violation"`
	Detail    any         `json:"detail,omitempty"`
}

// CaseFns maps property IDs to their case runner.
var CaseFns = map[string]func(c *Ctx){}

// ReplayDir is where witnesses are written.
var ReplayDir = "/verif/replays"

// Args of the child binary.
type Args struct {
	Prop, Tier, Flavor, Mode, Out, Replay string
	Seed                                  uint64
	From, Cases                           int
}

func runCase(a *Args, fn func(c *Ctx), i int, wantSample bool) *Ctx {
	c := &Ctx{Prop: a.Prop, Tier: a.Tier, Flavor: a.Flavor, Mode: a.Mode, Seed: a.Seed, Case: i,
		R: NewRng(a.Seed, HashStr(a.Prop), HashStr(a.Mode), uint64(i)), Cov: NewCov(), wantSample: wantSample}
	func() {
		// a panic that escapes the executor (a library call made directly by a case function) is a violation
		// of the case, not the end of the child
		defer func() {
			if r := recover(); r != nil {
				c.Fail(Violation{Kind: "uncaught.panic", Msg: fmt.Sprintf("library call panicked outside the op executor: %v\n%s", r, debug.Stack())}, nil)
			}
		}()
		fn(c)
	}()
	return c
}

// DrvMain is the entry point of the child binary.
func DrvMain(a *Args) int {
	if r := os.Getenv("VERIF_ROOT"); r != "" {
		ReplayDir = filepath.Join(r, "replays")
	}
	fn, ok := CaseFns[a.Prop]
	if !ok {
		fmt.Fprintf(os.Stderr, "unknown property %s\n", a.Prop)
		return 2
	}
	if a.Replay != "" {
		b, err := os.ReadFile(a.Replay)
		if err != nil {
			fmt.Fprintln(os.Stderr, err)
			return 2
		}
		var w Witness
		if err := json.Unmarshal(b, &w); err != nil {
			fmt.Fprintln(os.Stderr, err)
			return 2
		}
		a.Prop, a.Mode, a.Tier, a.Seed = w.Prop, w.Mode, w.Tier, w.Seed
		fn = CaseFns[a.Prop]
		c := runCase(a, fn, w.Case, false)
		if len(c.viol) == 0 {
			fmt.Printf("replay of %s: case %d did not violate property %s on this tree\n", a.Replay, w.Case, a.Prop)
			return 0
		}
		for _, v := range c.viol {
			fmt.Printf("replay: property=%s case=%d step=%d kind=%s\n  %s\n  op=%s\n", a.Prop, w.Case, v.Step, v.Kind, v.Msg, v.Op)
		}
		return 1
	}
	rep := &Report{Prop: a.Prop, Flavor: a.Flavor, Mode: a.Mode, Tier: a.Tier, Seed: a.Seed, From: a.From, Cases: a.Cases, Cov: NewCov(), Hooks: HooksOn}
	seen := map[uint64]bool{}
	var prog *os.File
	if a.Out != "" {
		prog, _ = os.Create(a.Out + ".progress")
	}
	for i := a.From; i < a.From+a.Cases; i++ {
		if prog != nil {
			prog.WriteAt([]byte(fmt.Sprintf("%-12s", strconv.Itoa(i))), 0)
		}
		c := runCase(a, fn, i, len(rep.Samples) < 2)
		rep.Evaluations += 1 + c.extraEvals
		rep.Cov.Merge(c.Cov)
		if c.hasTranscript {
			if rep.Transcripts == nil {
				rep.Transcripts = map[int]uint64{}
			}
			rep.Transcripts[i] = c.transcript
		}
		for _, h := range c.nontrivial {
			if !seen[h] {
				seen[h] = true
				rep.NonTrivial = append(rep.NonTrivial, h)
			}
		}
		rep.Samples = append(rep.Samples, c.samples...)
		if len(c.viol) > 0 {
			w := Witness{Prop: a.Prop, Flavor: a.Flavor, Mode: a.Mode, Tier: a.Tier, Seed: a.Seed, Case: i, Violation: c.viol, Detail: c.witness}
			path := filepath.Join(ReplayDir, fmt.Sprintf("%s-%s-%s-%d-%d.json", a.Prop, a.Flavor, orDash(a.Mode), a.Seed, i))
			os.MkdirAll(ReplayDir, 0o755)
			b, _ := json.MarshalIndent(w, "", " ")
			os.WriteFile(path, b, 0o644)
			v := c.viol[0]
			msg := v.Msg
			if len(msg) > 1500 {
				msg = msg[:1500] + "..."
			}
			rep.Violations = append(rep.Violations, RepViolation{Case: i, Kind: v.Kind, Msg: msg, Witness: path})
			if len(rep.Violations) >= 20 {
				break
			}
		}
	}
	rep.Done = true
	sort.Slice(rep.NonTrivial, func(i, j int) bool { return rep.NonTrivial[i] < rep.NonTrivial[j] })
	b, _ := json.Marshal(rep)
	if a.Out != "" {
		if err := os.WriteFile(a.Out, b, 0o644); err != nil {
			fmt.Fprintln(os.Stderr, err)
			return 2
		}
	} else {
		os.Stdout.Write(b)
	}
	return 0
}

func orDash(s string) string {
	if s == "" {
		return "-"
	}
	return s
}

// SessWitness is the witness detail of a session-based case.
type SessWitness struct {
	Cfg Cfg   `json:"cfg"`
	Ops []*Op `json:"ops"`
}

// FailSess reports the violations of a session.
func (c *Ctx) FailSess(s *Sess) {
	for _, v := range s.Viol {
		c.Fail(v, SessWitness{Cfg: s.Cfg, Ops: s.Log})
	}
}

// SampleSess offers the first ops of a session as sample.
func (c *Ctx) SampleSess(s *Sess) {
	if !c.WantSample() {
		return
	}
	n := len(s.Log)
	if n > 12 {
		n = 12
	}
	ops := []string{}
	for _, o := range s.Log[:n] {
		ops = append(ops, o.String())
	}
	c.Sample(map[string]any{"case": c.Case, "types": len(s.Cfg.Types), "used_ids": s.Cfg.Used, "capinc": s.Cfg.CapInc, "ops_total": len(s.Log), "first_ops": ops})
}
