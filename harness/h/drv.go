package h

// DrvMain is the entry point of the child binary for property checks.
func DrvMain(prop string, seed uint64, from, cases int, tier, out, replay string) int {
	return 2
}
