package h

import (
	"bytes"
	"fmt"
	"strings"
	"unsafe"

	"github.com/mlange-42/arche/ecs"
)

// sampleIDs returns the component IDs to probe with Has/Get.
func (s *Sess) sampleIDs() []int {
	n := len(s.IDs)
	if s.O.AllIDs || n <= 24 {
		r := make([]int, n)
		for i := range r {
			r[i] = i
		}
		return r
	}
	in := map[int]bool{}
	r := []int{}
	for _, id := range s.Cfg.Used {
		if id < n && !in[id] {
			in[id] = true
			r = append(r, id)
		}
	}
	for _, id := range []int{0, n - 1, n / 2} {
		if !in[id] {
			in[id] = true
			r = append(r, id)
		}
	}
	for i := 0; i < 6; i++ {
		id := s.Rng.Intn(n)
		if !in[id] {
			in[id] = true
			r = append(r, id)
		}
	}
	return r
}

type accessor interface {
	Has(ecs.ID) bool
	Get(ecs.ID) unsafe.Pointer
}

type worldAcc struct {
	w *ecs.World
	e ecs.Entity
}

func (a worldAcc) Has(id ecs.ID) bool           { return a.w.Has(a.e, id) }
func (a worldAcc) Get(id ecs.ID) unsafe.Pointer { return a.w.Get(a.e, id) }

// checkComps compares Has/Get of one entity (through World or Query) with the model.
func (s *Sess) checkComps(via string, e ecs.Entity, me *MEnt, acc accessor, probe []int) bool {
	for _, id := range probe {
		want, has := me.Comps[id]
		if got := acc.Has(s.IDs[id]); got != has {
			s.fail("model.has", "%s: Has(%v, %d)=%v, model says %v (components %v)", via, e, id, got, has, me.IDs())
			return false
		}
		p := acc.Get(s.IDs[id])
		if (p != nil) != has {
			s.fail("model.get", "%s: Get(%v, %d) nil=%v, model has=%v", via, e, id, p == nil, has)
			return false
		}
		if has && len(want) > 0 {
			got := unsafe.Slice((*byte)(p), len(want))
			if !bytes.Equal(got, want) {
				s.fail("model.value", "%s: component %d of %v holds %x, last written %x", via, id, e, got, want)
				return false
			}
			s.Cov.N["value_compares"]++
		}
	}
	return true
}

// CheckWorld compares everything the world reports with the model.
func (s *Sess) CheckWorld() {
	w := s.W
	m := s.M
	probe := s.sampleIDs()
	if w.Alive(ecs.Entity{}) {
		s.fail("handle.zeroalive", "the zero entity is reported alive")
		return
	}
	if s.open == 0 && w.IsLocked() {
		s.fail("lock.leak", "world is locked although no query is open")
		return
	}
	for e, me := range m.Alive {
		if !w.Alive(e) {
			s.fail("model.alive", "entity %v should be alive", e)
			return
		}
		mask := w.Mask(e)
		if got := s.maskNums(&mask); !eqInts(got, me.IDs()) {
			s.fail("model.mask", "Mask(%v)=%v, model says %v", e, got, me.IDs())
			return
		}
		if mask.TotalBitsSet() != len(me.Comps) {
			s.fail("model.mask", "Mask(%v) has %d bits, model has %d components", e, mask.TotalBitsSet(), len(me.Comps))
			return
		}
		if got := s.nums(scribbled(w.Ids(e))); !eqInts(got, me.IDs()) {
			s.fail("model.ids", "Ids(%v)=%v, model says %v", e, got, me.IDs())
			return
		}
		if !s.checkComps("World", e, me, worldAcc{w, e}, probe) {
			return
		}
		for id := range me.Comps {
			if w.GetUnchecked(e, s.IDs[id]) != w.Get(e, s.IDs[id]) || !w.HasUnchecked(e, s.IDs[id]) {
				s.fail("model.unchecked", "GetUnchecked/HasUnchecked(%v, %d) disagree with Get/Has", e, id)
				return
			}
		}
		rel := m.RelOf(me)
		if rel == -2 {
			s.fail("model.tworelations", "entity %v carries two relation components", e)
			return
		}
		if rel >= 0 {
			if got := w.Relations().Get(e, s.IDs[rel]); got != me.Target {
				s.fail("model.target", "Relations.Get(%v, %d)=%v, last assigned target is %v", e, rel, got, me.Target)
				return
			}
			if got := w.Relations().GetUnchecked(e, s.IDs[rel]); got != me.Target {
				s.fail("model.target", "Relations.GetUnchecked(%v, %d)=%v, last assigned target is %v", e, rel, got, me.Target)
				return
			}
		}
		s.Cov.N["entity_compares"]++
	}
	if s.O.Ledger {
		for h := range m.Ledger {
			if _, alive := m.Alive[h]; alive {
				continue
			}
			if w.Alive(h) {
				s.fail("handle.resurrected", "removed handle %v is reported alive again", h)
				return
			}
			s.Cov.N["ledger_dead_checks"]++
		}
		ids := map[uint32]ecs.Entity{}
		for e := range m.Alive {
			if o, dup := ids[e.ID()]; dup {
				s.fail("handle.sharedid", "alive entities %v and %v share an id", e, o)
				return
			}
			ids[e.ID()] = e
		}
		if used := w.Stats().Entities.Used; used != len(m.Alive) || used != m.Created-m.Removed {
			s.fail("handle.count", "Stats().Entities.Used=%d, model alive=%d, created-removed=%d", used, len(m.Alive), m.Created-m.Removed)
			return
		}
	}
	if s.O.Sweep {
		s.sweep(probe)
	}
}

// sweep iterates a query over everything and compares each position with the model.
func (s *Sess) sweep(probe []int) {
	w := s.W
	m := s.M
	seen := map[ecs.Entity]bool{}
	q := w.Query(ecs.All())
	s.open++
	defer func() { s.open-- }()
	cnt := q.Count()
	for q.Next() {
		e := q.Entity()
		me, ok := m.Alive[e]
		if !ok {
			s.fail("sweep.ghost", "query over all entities visits %v which is not alive in the model", e)
			q.Close()
			return
		}
		if seen[e] {
			s.fail("sweep.twice", "query over all entities visits %v twice", e)
			q.Close()
			return
		}
		seen[e] = true
		mask := q.Mask()
		if got := s.maskNums(&mask); !eqInts(got, me.IDs()) {
			s.fail("sweep.mask", "Query.Mask at %v = %v, model says %v", e, got, me.IDs())
			q.Close()
			return
		}
		if got := s.nums(scribbled(q.Ids())); !eqInts(got, me.IDs()) {
			s.fail("sweep.ids", "Query.Ids at %v = %v, model says %v", e, got, me.IDs())
			q.Close()
			return
		}
		if !s.checkComps("Query", e, me, &q, probe) {
			q.Close()
			return
		}
		if rel := m.RelOf(me); rel >= 0 {
			if got := q.Relation(s.IDs[rel]); got != me.Target {
				s.fail("sweep.target", "Query.Relation at %v = %v, last assigned target is %v", e, got, me.Target)
				q.Close()
				return
			}
		}
	}
	if len(seen) != len(m.Alive) {
		for e := range m.Alive {
			if !seen[e] {
				s.fail("sweep.miss", "query over all entities misses alive entity %v (visited %d of %d)", e, len(seen), len(m.Alive))
				return
			}
		}
	}
	if cnt != len(seen) {
		s.fail("sweep.count", "Count()=%d but %d entities visited", cnt, len(seen))
	}
	s.Cov.N["sweeps"]++
}

// iterate collects the entities of a fresh query by Next.
func (s *Sess) iterate(f ecs.Filter) []ecs.Entity {
	q := s.W.Query(f)
	r := []ecs.Entity{}
	for q.Next() {
		r = append(r, q.Entity())
	}
	return r
}

// expected returns the entities that must be / may be in a query result.
func (s *Sess) expected(spec *FSpec) (must map[ecs.Entity]bool, may map[ecs.Entity]bool) {
	must, may = map[ecs.Entity]bool{}, map[ecs.Entity]bool{}
	for e, me := range s.M.Alive {
		ok, dc := s.M.Match(spec, me)
		if ok && dc {
			may[e] = true
		} else if ok {
			must[e] = true
		}
	}
	return
}

// checkResult compares an iteration result with the model's expectation for the spec.
func (s *Sess) checkResult(kind string, spec *FSpec, got []ecs.Entity) bool {
	must, may := s.expected(spec)
	seen := map[ecs.Entity]bool{}
	for _, e := range got {
		if seen[e] {
			s.fail(kind+".twice", "query %s visits %v twice", spec, e)
			return false
		}
		seen[e] = true
		if !must[e] && !may[e] {
			if _, alive := s.M.Alive[e]; !alive {
				s.fail(kind+".dead", "query %s visits %v which is not alive", spec, e)
			} else {
				s.fail(kind+".extra", "query %s visits %v which does not match (components %v, target %v)", spec, e, s.M.Alive[e].IDs(), s.M.Alive[e].Target)
			}
			return false
		}
	}
	for e := range must {
		if !seen[e] {
			s.fail(kind+".miss", "query %s misses %v which matches (components %v, target %v); visited %d", spec, e, s.M.Alive[e].IDs(), s.M.Alive[e].Target, len(got))
			return false
		}
	}
	return true
}

// QueryCheck runs the four traversals of C03 on fresh queries of the same world state.
func (s *Sess) QueryCheck(f ecs.Filter, spec *FSpec, mode int) {
	w := s.W
	// traversal 1: all Next, checking each position against the world
	q := w.Query(f)
	if !w.IsLocked() {
		s.fail("lock.query", "world not locked while a query is open")
		q.Close()
		return
	}
	base := []ecs.Entity{}
	probe := s.sampleIDs()
	tables := 0
	var lastMask ecs.Mask
	first := true
	for q.Next() {
		e := q.Entity()
		base = append(base, e)
		me, ok := s.M.Alive[e]
		if !ok {
			continue // reported by checkResult
		}
		mask := q.Mask()
		if first || mask != lastMask {
			tables++
			lastMask = mask
			first = false
		}
		if wm := w.Mask(e); wm != mask {
			s.fail("query.mask", "query %s at %v: Mask %v, World.Mask %v", spec, e, s.maskNums(&mask), s.maskNums(&wm))
			q.Close()
			return
		}
		if got := s.nums(scribbled(q.Ids())); !eqInts(got, me.IDs()) {
			s.fail("query.ids", "query %s at %v: Ids %v, model %v", spec, e, got, me.IDs())
			q.Close()
			return
		}
		if !s.checkComps("Query "+spec.String(), e, me, &q, probe) {
			q.Close()
			return
		}
		for id := range me.Comps {
			if q.Get(s.IDs[id]) != w.Get(e, s.IDs[id]) {
				s.fail("query.getptr", "query %s at %v: Get(%d) differs from World.Get", spec, e, id)
				q.Close()
				return
			}
		}
		if rel := s.M.RelOf(me); rel >= 0 {
			if got := q.Relation(s.IDs[rel]); got != me.Target || got != w.Relations().Get(e, s.IDs[rel]) {
				s.fail("query.relation", "query %s at %v: Relation=%v, model target %v", spec, e, got, me.Target)
				q.Close()
				return
			}
		}
	}
	if w.IsLocked() && s.open == 0 {
		s.fail("lock.release", "world still locked after query exhaustion")
		return
	}
	if !s.checkResult("query", spec, base) {
		return
	}
	s.Cov.N["query_checks"]++
	s.Cov.N["query_positions"] += len(base)
	if tables >= 3 {
		s.Cov.N["query_3tables"]++
	}
	s.trace("q", spec.String(), base)

	// traversal 2: Count then EntityAt
	q2 := w.Query(f)
	n := q2.Count()
	if n != len(base) {
		s.fail("query.count", "query %s: Count()=%d, iteration visits %d", spec, n, len(base))
		q2.Close()
		return
	}
	for i := 0; i < n; i++ {
		if got := q2.EntityAt(i); got != base[i] {
			s.fail("query.entityat", "query %s: EntityAt(%d)=%v, %d-th visited is %v", spec, i, got, i, base[i])
			q2.Close()
			return
		}
	}
	if mode%2 == 0 {
		q2.Close()
	} else {
		i := 0
		for q2.Next() {
			if i >= len(base) || q2.Entity() != base[i] {
				s.fail("query.aftercount", "query %s: iteration after Count/EntityAt differs at position %d", spec, i)
				q2.Close()
				return
			}
			i++
		}
		if i != len(base) {
			s.fail("query.aftercount", "query %s: iteration after Count visits %d of %d", spec, i, len(base))
			return
		}
	}
	if w.IsLocked() && s.open == 0 {
		s.fail("lock.release", "world still locked after Close/exhaustion following Count")
		return
	}

	// traversal 3: Step mixed with Next
	steps := []int{1, 2, 3, 7, len(base), len(base) + 1}
	q3 := w.Query(f)
	pos := -1
	k := mode
	for {
		k++
		var ok bool
		var adv int
		if k%3 == 0 {
			ok = q3.Next()
			adv = 1
		} else {
			adv = steps[(k/3+mode)%len(steps)]
			if adv <= 0 {
				adv = 1
			}
			ok = q3.Step(adv)
		}
		pos += adv
		if pos >= len(base) {
			if ok {
				s.fail("query.step", "query %s: Step/Next to position %d returned true, only %d entities", spec, pos, len(base))
				q3.Close()
				return
			}
			break
		}
		if !ok {
			s.fail("query.step", "query %s: Step/Next to position %d of %d returned false", spec, pos, len(base))
			return
		}
		if got := q3.Entity(); got != base[pos] {
			s.fail("query.step", "query %s: after stepping to position %d at %v, Next would be at %v", spec, pos, got, base[pos])
			q3.Close()
			return
		}
		s.Cov.N["query_steps"]++
	}
	if w.IsLocked() && s.open == 0 {
		s.fail("lock.release", "world still locked after Step exhaustion")
		return
	}

	// traversal 4: partial iteration then Close
	q4 := w.Query(f)
	stop := 0
	if len(base) > 0 {
		stop = mode % (len(base) + 1)
	}
	for i := 0; i < stop; i++ {
		if !q4.Next() || q4.Entity() != base[i] {
			s.fail("query.repeat", "query %s: second iteration differs at position %d", spec, i)
			return
		}
	}
	q4.Close()
	if w.IsLocked() && s.open == 0 {
		s.fail("lock.release", "world still locked after Close")
		return
	}
}

// CheckCache compares every registered filter with its original (C07 shadow comparator).
func (s *Sess) CheckCache() {
	// deterministic order, rotating, so that the registration looked up last varies from op to op
	slots := sortedSlots(s.regs)
	for k := range slots {
		slot := slots[(k+s.step)%len(slots)]
		r := s.regs[slot]
		a := s.iterate(&r.cached)
		b := s.iterate(r.orig)
		if !sameEntSet(a, b) {
			s.fail("cache.differs", "registered filter %s (slot %d) selects %d entities %v, the original selects %d %v", r.spec, slot, len(a), short(a), len(b), short(b))
			return
		}
		seen := map[ecs.Entity]bool{}
		for _, e := range a {
			if seen[e] {
				s.fail("cache.twice", "registered filter %s (slot %d) visits %v twice", r.spec, slot, e)
				return
			}
			seen[e] = true
		}
		if !s.checkResult("cache", r.spec, a) {
			return
		}
		s.Cov.N["cache_compares"]++
	}
}

func short(e []ecs.Entity) string {
	if len(e) > 12 {
		return fmt.Sprintf("%v...", e[:12])
	}
	return fmt.Sprint(e)
}

// CheckTargets compares, for every target ever used (alive or dead) and the zero target,
// the relation-filter query result with the model's children.
func (s *Sess) CheckTargets() {
	type key struct {
		rel int
		t   ecs.Entity
	}
	groups := map[key]map[ecs.Entity]bool{}
	for e, me := range s.M.Alive {
		if rel := s.M.RelOf(me); rel >= 0 {
			k := key{rel, me.Target}
			if groups[k] == nil {
				groups[k] = map[ecs.Entity]bool{}
			}
			groups[k][e] = true
			if !me.Target.IsZero() && !s.targets[me.Target] {
				s.targets[me.Target] = true
			}
		}
	}
	for id, t := range s.M.Types {
		if !t.Rel || !contains(s.Cfg.Used, id) {
			continue
		}
		m := ecs.All(s.IDs[id])
		check := func(t ecs.Entity) bool {
			rf := ecs.NewRelationFilter(&m, t)
			got := s.iterate(&rf)
			want := groups[key{id, t}]
			seen := map[ecs.Entity]bool{}
			for _, e := range got {
				if !want[e] || seen[e] {
					s.fail("target.extra", "relation filter (component %d, target %v) selects %v which is not a child of that target (or twice)", id, t, e)
					return false
				}
				seen[e] = true
			}
			if len(seen) != len(want) {
				for e := range want {
					if !seen[e] {
						s.fail("target.miss", "relation filter (component %d, target %v) misses child %v", id, t, e)
						return false
					}
				}
			}
			s.Cov.N["target_queries"]++
			return true
		}
		if !check(ecs.Entity{}) {
			return
		}
		for t := range s.targets {
			if !check(t) {
				return
			}
		}
	}
}

func contains(xs []int, x int) bool {
	for _, y := range xs {
		if x == y {
			return true
		}
	}
	return false
}

// queryAcrossCacheOps: the cache may be changed while a query through a registered filter is open (Register and
// Unregister are not structural operations). A query opened through registration `own` is advanced part of the
// way, then another registration is unregistered and registered again (same original filter, so the set of
// registrations stays what the history says), then the query is finished: it must visit what it would have visited.
func (s *Sess) queryAcrossCacheOps(own int, f ecs.Filter, spec *FSpec, mode int) {
	if _, ok := f.(*ecs.CachedFilter); !ok || len(s.regs) < 2 || s.open > 0 {
		return
	}
	w := s.W
	base := s.iterate(f)
	slots := sortedSlots(s.regs)
	others := []int{}
	for _, sl := range slots {
		if sl != own {
			others = append(others, sl)
		}
	}
	other := others[mode%len(others)]
	q := w.Query(f)
	k := 0
	if len(base) > 0 {
		k = (mode / 3) % (len(base) + 1)
	}
	for i := 0; i < k; i++ {
		if !q.Next() || q.Entity() != base[i] {
			s.fail("query.repeat", "query %s: second iteration differs at position %d", spec, i)
			if w.IsLocked() {
				q.Close()
			}
			return
		}
	}
	if mode%5 == 3 {
		// the registration the open query came from is itself unregistered (a program that is done with a filter may
		// do so while its last query is still running), another filter is registered in between, and the query goes on
		ro := s.regs[own]
		orig := w.Cache().Unregister(&ro.cached)
		if !sameFilter(orig, ro.orig) {
			s.fail("cache.unregister", "Unregister returned %v, not the original filter %v", orig, ro.orig)
		}
		s.stale = append(s.stale, ro.cached)
		tmp := w.Cache().Register(s.regs[other].orig)
		i := k
		for q.Next() {
			if i >= len(base) || q.Entity() != base[i] {
				s.fail("cache.openquery", "query through registered filter %s (slot %d), open at position %d while its own registration was dropped and another filter was registered: position %d is %v, it was opened on %v", spec, own, k, i, q.Entity(), short(base))
				q.Close()
				break
			}
			i++
		}
		if !s.Failed() && i != len(base) {
			s.fail("cache.openquery", "query through registered filter %s (slot %d), open at position %d while its own registration was dropped: visited %d of %d entities", spec, own, k, i, len(base))
		}
		w.Cache().Unregister(&tmp)
		c := w.Cache().Register(ro.orig)
		s.regs[own] = &regEntry{spec: ro.spec, orig: ro.orig, cached: c}
		if !s.Failed() {
			s.Cov.N["queries_open_across_own_unregistration"]++
		}
		return
	}
	r := s.regs[other]
	orig := w.Cache().Unregister(&r.cached)
	if !sameFilter(orig, r.orig) {
		s.fail("cache.unregister", "Unregister returned %v, not the original filter %v", orig, r.orig)
	}
	s.stale = append(s.stale, r.cached)
	if mode%2 == 0 {
		// look at the open query between the two cache calls as well
		if n := q.Count(); n != len(base) {
			s.fail("cache.openquery", "query through registered filter %s (slot %d), open at position %d while registration %d was unregistered: Count()=%d, it was opened on %d entities", spec, own, k, other, n, len(base))
		}
	}
	c := w.Cache().Register(r.orig)
	s.regs[other] = &regEntry{spec: r.spec, orig: r.orig, cached: c}
	if s.Failed() {
		if w.IsLocked() {
			q.Close()
		}
		return
	}
	i := k
	for q.Next() {
		if i >= len(base) || q.Entity() != base[i] {
			s.fail("cache.openquery", "query through registered filter %s (slot %d), open at position %d while registration %d was unregistered and registered again: position %d is %v, it was opened on %v", spec, own, k, other, i, q.Entity(), short(base))
			q.Close()
			return
		}
		i++
	}
	if i != len(base) {
		s.fail("cache.openquery", "query through registered filter %s (slot %d), open at position %d while registration %d was unregistered and registered again: visited %d of %d entities", spec, own, k, other, i, len(base))
		return
	}
	if w.IsLocked() {
		s.fail("lock.release", "world still locked after exhaustion of a query that was open across cache calls")
		return
	}
	s.Cov.N["queries_open_across_cache_calls"]++
}

// scribbled returns a copy of a slice that a library call returned to the caller, and overwrites the returned slice
// itself (reversed, first element duplicated): World.Ids and Query.Ids are documented as safe to manipulate, and
// ComponentIDs/ResourceIDs hand out fresh lists. Whatever the library keeps must not be affected.
func scribbled(xs []ecs.ID) []ecs.ID {
	cp := append([]ecs.ID{}, xs...)
	for i, j := 0, len(xs)-1; i < j; i, j = i+1, j-1 {
		xs[i], xs[j] = xs[j], xs[i]
	}
	if len(xs) > 1 {
		xs[len(xs)-1] = xs[0]
	}
	return cp
}

func scribbledRes(xs []ecs.ResID) []ecs.ResID {
	cp := append([]ecs.ResID{}, xs...)
	for i, j := 0, len(xs)-1; i < j; i, j = i+1, j-1 {
		xs[i], xs[j] = xs[j], xs[i]
	}
	if len(xs) > 1 {
		xs[len(xs)-1] = xs[0]
	}
	return cp
}

// statsNames checks that what World.Stats reports and prints about component types is this world's registry:
// every node's component types are the types registered under the node's IDs in this world, and the printed lines
// name exactly those types.
func statsNames(w *ecs.World) string {
	st := w.Stats()
	ids := ecs.ComponentIDs(w)
	if len(st.ComponentTypes) != len(ids) {
		return fmt.Sprintf("Stats lists %d component types, %d are registered", len(st.ComponentTypes), len(ids))
	}
	names := []string{}
	for i, tp := range st.ComponentTypes {
		info, _ := ecs.ComponentInfo(w, ids[i])
		if info.Type != tp {
			return fmt.Sprintf("Stats lists %v as component type %d, registered is %v", tp, i, info.Type)
		}
		names = append(names, tp.Name())
	}
	text := st.String()
	if want := "  Components: " + strings.Join(names, ", ") + "\n"; !strings.Contains(text, want) {
		return fmt.Sprintf("the printed statistics lack the line %q", want)
	}
	for k := range st.Nodes {
		nd := &st.Nodes[k]
		nn := []string{}
		for j, cid := range nd.ComponentIDs {
			if int(cid) >= len(ids) {
				return fmt.Sprintf("node %d lists component ID %d, %d types are registered", k, cid, len(ids))
			}
			info, _ := ecs.ComponentInfo(w, ids[cid])
			if j >= len(nd.ComponentTypes) || nd.ComponentTypes[j] != info.Type {
				return fmt.Sprintf("node %d lists a type for component ID %d that is not the registered %v", k, cid, info.Type)
			}
			nn = append(nn, info.Type.Name())
		}
		if !nd.IsActive {
			continue
		}
		line := nd.String()
		if want := "\n  Components: " + strings.Join(nn, ", ") + "\n"; !strings.HasSuffix(line, want) {
			return fmt.Sprintf("node %d (component IDs %v) prints %q, its component types are named %q", k, nd.ComponentIDs, line, strings.Join(nn, ", "))
		}
		if !strings.Contains(text, line) {
			return fmt.Sprintf("the printed statistics lack the lines of node %d", k)
		}
	}
	return ""
}

// statsConsistent checks what World.Stats reports about tables against the world itself: per node the number of
// entities is what an exclusive query over the node's components counts, the tables' sizes add up to it, and all
// nodes together hold the entities in use.
func statsConsistent(w *ecs.World) string {
	if w.IsLocked() {
		return ""
	}
	st := w.Stats()
	ids := ecs.ComponentIDs(w)
	total := 0
	for k := range st.Nodes {
		nd := &st.Nodes[k]
		sum, active := 0, 0
		for _, a := range nd.Archetypes {
			if a.IsActive {
				active++
				sum += a.Size
			} else if a.Size != 0 {
				return fmt.Sprintf("node %d: a table that is not active is reported with %d entities", k, a.Size)
			}
		}
		if !nd.IsActive {
			continue
		}
		if sum != nd.Size || active != nd.ActiveArchetypeCount {
			return fmt.Sprintf("node %d: Size %d / %d active tables, its tables add up to %d entities in %d active tables", k, nd.Size, nd.ActiveArchetypeCount, sum, active)
		}
		cids := []ecs.ID{}
		for _, cid := range nd.ComponentIDs {
			if int(cid) >= len(ids) {
				return fmt.Sprintf("node %d lists component ID %d", k, cid)
			}
			cids = append(cids, ids[cid])
		}
		f := ecs.All(cids...).Exclusive()
		q := w.Query(&f)
		n := q.Count()
		q.Close()
		if n != nd.Size {
			return fmt.Sprintf("node %d (components %v): Stats reports %d entities, a query for exactly these components counts %d", k, nd.ComponentIDs, nd.Size, n)
		}
		total += nd.Size
	}
	if total != st.Entities.Used {
		return fmt.Sprintf("the nodes hold %d entities, Entities.Used is %d", total, st.Entities.Used)
	}
	return ""
}
