package h

import (
	"fmt"
	"sync"

	"github.com/mlange-42/arche/ecs"
)

// c19SharedDump: several worlds are loaded from one and the same EntityDump value (read-only input shared by the
// caller) and then driven, alone and concurrently. Nothing one of them does may show up in another or in the dump.
func c19SharedDump(c *Ctx) {
	goroutines := 6
	// a source world with a pool length around the allocator's size-class and capacity-increment boundaries
	capInc := Pick(c.R, []int{1, 2, 128, 128, 128})
	src := ecs.NewWorld(ecs.NewConfig().WithCapacityIncrement(capInc))
	n := Pick(c.R, []int{5, 40, 100, 111, 112, 113, 120, 127, 128, 129, 224, 230, 255, 256, 300})
	es := []ecs.Entity{}
	for i := 0; i < n; i++ {
		es = append(es, src.NewEntity())
	}
	for i := 0; i < n/3; i++ {
		j := c.R.Intn(len(es))
		src.RemoveEntity(es[j])
		es = append(es[:j], es[j+1:]...)
	}
	dump := src.DumpEntities()
	ref := ecs.EntityDump{Entities: append([]ecs.Entity{}, dump.Entities...), Alive: append([]uint32{}, dump.Alive...), Next: dump.Next, Available: dump.Available}
	drive := func(gi int, log *[]string) {
		w := ecs.NewWorld(ecs.NewConfig().WithCapacityIncrement(capInc))
		w.LoadEntities(&dump)
		r := NewRng(c.Seed, uint64(c.Case), uint64(gi), 1919)
		alive := append([]ecs.Entity{}, es...)
		for i := 0; i < 150; i++ {
			if len(alive) == 0 || r.Chance(0.5) {
				e := w.NewEntity()
				alive = append(alive, e)
				*log = append(*log, fmt.Sprint("new ", e))
			} else {
				j := r.Intn(len(alive))
				if !w.Alive(alive[j]) {
					*log = append(*log, fmt.Sprint("dead before removal ", alive[j]))
					return
				}
				w.RemoveEntity(alive[j])
				alive = append(alive[:j], alive[j+1:]...)
			}
			if i%25 == 0 {
				st := w.Stats()
				*log = append(*log, fmt.Sprint("used ", st.Entities.Used, len(st.String())))
			}
		}
		cnt := 0
		for _, e := range alive {
			if w.Alive(e) {
				cnt++
			}
		}
		*log = append(*log, fmt.Sprint("alive at end ", cnt, " of ", len(alive)))
	}
	conc := make([][]string, goroutines)
	var wg sync.WaitGroup
	start := make(chan struct{})
	for gi := 0; gi < goroutines; gi++ {
		wg.Add(1)
		go func(gi int) {
			defer wg.Done()
			defer func() {
				if r := recover(); r != nil {
					conc[gi] = append(conc[gi], fmt.Sprint("panic: ", r))
				}
			}()
			<-start
			drive(gi, &conc[gi])
		}(gi)
	}
	close(start)
	wg.Wait()
	for gi := 0; gi < goroutines; gi++ {
		solo := []string{}
		func() {
			defer func() {
				if r := recover(); r != nil {
					solo = append(solo, fmt.Sprint("panic: ", r))
				}
			}()
			// the solo runs load a private copy, so they cannot influence each other even if loading aliases its input
			priv := ecs.EntityDump{Entities: append([]ecs.Entity{}, ref.Entities...), Alive: append([]uint32{}, ref.Alive...), Next: ref.Next, Available: ref.Available}
			saved := dump
			dump = priv
			drive(gi, &solo)
			dump = saved
		}()
		if fmt.Sprint(solo) != fmt.Sprint(conc[gi]) {
			c.Fail(Violation{Kind: "crosstalk.shareddump", Msg: fmt.Sprintf("world %d loaded from a dump that %d other worlds loaded too behaves differently from the same world alone (pool length %d, capacity increment %d): %v vs alone %v", gi, goroutines-1, len(ref.Entities), capInc, tailStr(conc[gi]), tailStr(solo))},
				map[string]any{"goroutine": gi, "pool_len": len(ref.Entities)})
			return
		}
		c.Cov.N["shared_dump_transcripts_compared"]++
	}
	if fmt.Sprint(dump.Entities) != fmt.Sprint(ref.Entities) || fmt.Sprint(dump.Alive) != fmt.Sprint(ref.Alive) || dump.Next != ref.Next || dump.Available != ref.Available {
		c.Fail(Violation{Kind: "crosstalk.dump", Msg: "the dump value changed while worlds loaded from it were driven"}, map[string]any{"pool_len": len(ref.Entities)})
		return
	}
	c.AddEvaluations(goroutines*2 - 1)
	c.Sample(map[string]any{"mode": "shareddump", "case": c.Case, "pool_len": len(ref.Entities), "capinc": capInc, "worlds": goroutines})
	c.NonTrivial(HashStr(fmt.Sprint("c19sd", c.Seed, c.Case)))
}

func tailStr(s []string) []string {
	if len(s) > 4 {
		return s[len(s)-4:]
	}
	return s
}
