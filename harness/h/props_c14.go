package h

import (
	"fmt"
	"reflect"
	"runtime"
	"runtime/debug"
	"sync/atomic"
	"time"
	"unsafe"

	"github.com/mlange-42/arche/ecs"
	"github.com/mlange-42/arche/generic"
)

func init() { CaseFns["C14"] = caseC14 }

// gcWorld is the C14 driver: a world whose components reference canaries, plus the model of who references what.
type gcWorld struct {
	w        *ecs.World
	r        *Rng
	ids      map[string]ecs.ID
	pids     []string                           // pointer component names
	model    map[ecs.Entity]map[string][]uint64 // entity -> pointer component -> canary ids (tracked and untracked)
	plain    map[ecs.Entity]map[string]bool
	tracked  map[uint64]int // canary id -> number of component values referencing it (tracked = has finalizer)
	next     uint64
	released []uint64
	cov      *Cov
	viol     []Violation
	step     int
	rel      ecs.ID
	targets  map[ecs.Entity]ecs.Entity
	// a Builder with a pointer-carrying value, kept over several steps (and collections) before and between its uses
	keptB    *ecs.Builder
	keptName string
	keptIDs  []uint64
}

// dropBuilder forgets the kept Builder; what only it referenced may be collected from now on.
func (g *gcWorld) dropBuilder() {
	for _, id := range g.keptIDs {
		if n, ok := g.tracked[id]; ok {
			if n <= 1 {
				delete(g.tracked, id)
				g.released = append(g.released, id)
			} else {
				g.tracked[id] = n - 1
			}
		}
	}
	g.keptB, g.keptIDs = nil, nil
}

var canarySeq atomic.Uint64

func newGCWorld(r *Rng, cov *Cov) *gcWorld {
	conf := ecs.NewConfig().WithCapacityIncrement(Pick(r, []int{1, 2, 3, 4, 16})).WithRelationCapacityIncrement(Pick(r, []int{0, 1, 2}))
	w := ecs.NewWorld(conf)
	g := &gcWorld{w: &w, r: r, ids: map[string]ecs.ID{}, model: map[ecs.Entity]map[string][]uint64{}, plain: map[ecs.Entity]map[string]bool{},
		tracked: map[uint64]int{}, cov: cov, targets: map[ecs.Entity]ecs.Entity{}}
	// fillers first so that IDs are spread
	// (in some cases by whole mask words: the pointer-carrying components then get IDs 64+, 128+ or 192+, with
	// pointer-free fillers sitting at the same positions of the lower words)
	lead := r.Intn(20)
	if r.Chance(0.4) {
		lead = Pick(r, []int{50 + r.Intn(20), 115 + r.Intn(20), 180 + r.Intn(50)})
		cov.N["pointer_components_in_high_mask_words"]++
	}
	if lead > ecs.MaskTotalBits-24 {
		lead = ecs.MaskTotalBits - 24
	}
	for i := 0; i < lead; i++ {
		ecs.TypeID(&w, TypeOfKey(fmt.Sprintf("F%d", 6500+i)))
	}
	// registration order decides the IDs: shuffle it, so that zero-sized labels and the relation get IDs
	// below, between and above the pointer-carrying components
	reg := map[string]func() ecs.ID{
		"P1": func() ecs.ID { return ecs.ComponentID[P1](&w) }, "P2": func() ecs.ID { return ecs.ComponentID[P2](&w) },
		"P3": func() ecs.ID { return ecs.ComponentID[P3](&w) }, "P4": func() ecs.ID { return ecs.ComponentID[P4](&w) },
		"P5": func() ecs.ID { return ecs.ComponentID[P5](&w) }, "P6": func() ecs.ID { return ecs.ComponentID[P6](&w) },
		"P7": func() ecs.ID { return ecs.ComponentID[P7](&w) }, "P8": func() ecs.ID { return ecs.ComponentID[P8](&w) },
		"P9": func() ecs.ID { return ecs.ComponentID[P9](&w) }, "PA": func() ecs.ID { return ecs.ComponentID[PA](&w) }, "V1": func() ecs.ID { return ecs.ComponentID[V1](&w) },
		"V2": func() ecs.ID { return ecs.ComponentID[V2](&w) }, "V3": func() ecs.ID { return ecs.ComponentID[V3](&w) },
		"Rel": func() ecs.ID { return ecs.ComponentID[RelA](&w) },
	}
	order := []string{"P1", "P2", "P3", "P4", "P5", "P6", "P7", "P8", "P9", "PA", "V1", "V2", "V3", "Rel"}
	Shuffle(r, order)
	for _, k := range order {
		g.ids[k] = reg[k]()
		if r.Chance(0.3) {
			ecs.TypeID(&w, TypeOfKey(fmt.Sprintf("F%d", 6600+len(g.ids))))
		}
	}
	g.rel = g.ids["Rel"]
	g.pids = []string{"P1", "P2", "P3", "P4", "P5", "P6", "P7", "P8", "P9", "PA"}
	return g
}

func (g *gcWorld) fail(kind, f string, a ...any) {
	g.viol = append(g.viol, Violation{Step: g.step, Kind: kind, Msg: fmt.Sprintf(f, a...)})
}

func (g *gcWorld) newID() uint64 { return canarySeq.Add(1) }

// mkValue builds a component value of the named type referencing fresh tracked canaries.
func (g *gcWorld) mkValue(name string) (any, []uint64) {
	switch name {
	case "P1":
		a := g.newID()
		return &P1{P: newObj(a)}, []uint64{a}
	case "P2":
		n := 1 + g.r.Intn(3)
		ids := []uint64{}
		s := make([]*Obj, 0, n)
		for i := 0; i < n; i++ {
			a := g.newID()
			ids = append(ids, a)
			s = append(s, newObj(a))
		}
		return &P2{S: s}, ids
	case "P3":
		a, b := g.newID(), g.newID()
		return &P3{M: map[int]*Obj{1: newObj(a), 2: newObj(b)}}, []uint64{a, b}
	case "P4":
		a := g.newID()
		return &P4{Name: fmt.Sprintf("canary-%016d", a), P: newObj(a)}, []uint64{a}
	case "P6":
		a := g.newID()
		o := P6(newObj(a))
		return &o, []uint64{a}
	case "P7":
		a := g.newID()
		o := newObj(a)
		return &P7{F: func() *Obj { return o }}, []uint64{a}
	case "P8":
		a := g.newID()
		ch := make(chan *Obj, 1)
		ch <- newObj(a)
		return &P8{C: ch}, []uint64{a}
	case "P9":
		a := g.newID()
		return &P9{N: a, U: unsafe.Pointer(newObj(a))}, []uint64{a}
	case "PA":
		a := g.newID()
		v := &PA{P: newObj(a)}
		v.Pad[0], v.Pad[639] = a, ^a
		return v, []uint64{a}
	default:
		a := g.newID()
		return &P5{I: newObj(a)}, []uint64{a}
	}
}

// store writes a component value through a typed pointer store (ordinary Go assignment, write barriers apply).
func store(name string, p unsafe.Pointer, v any) {
	switch name {
	case "P1":
		*(*P1)(p) = *v.(*P1)
	case "P2":
		*(*P2)(p) = *v.(*P2)
	case "P3":
		*(*P3)(p) = *v.(*P3)
	case "P4":
		*(*P4)(p) = *v.(*P4)
	case "P5":
		*(*P5)(p) = *v.(*P5)
	case "P6":
		*(*P6)(p) = *v.(*P6)
	case "P7":
		*(*P7)(p) = *v.(*P7)
	case "P8":
		*(*P8)(p) = *v.(*P8)
	case "P9":
		*(*P9)(p) = *v.(*P9)
	case "PA":
		*(*PA)(p) = *v.(*PA)
	}
}

// typedPtr turns a component pointer handed out by the world into the typed pointer a Component value carries.
func typedPtr(name string, p unsafe.Pointer) any {
	switch name {
	case "P1":
		return (*P1)(p)
	case "P2":
		return (*P2)(p)
	case "P3":
		return (*P3)(p)
	case "P4":
		return (*P4)(p)
	case "P5":
		return (*P5)(p)
	case "P6":
		return (*P6)(p)
	case "P7":
		return (*P7)(p)
	case "P8":
		return (*P8)(p)
	case "P9":
		return (*P9)(p)
	case "PA":
		return (*PA)(p)
	case "V1":
		return (*V1)(p)
	case "V2":
		return (*V2)(p)
	case "V3":
		return (*V3)(p)
	case "Rel":
		return (*RelA)(p)
	}
	panic("no typed pointer for " + name)
}

// verify reads a component through its pointer and checks every canary it references.
func (g *gcWorld) verify(e ecs.Entity, name string, p unsafe.Pointer, want []uint64) bool {
	bad := func(what string) bool {
		g.fail("gc.canary", "entity %v component %s: %s (expected canaries %v)", e, name, what, want)
		return false
	}
	if p == nil {
		return bad("component missing")
	}
	switch name {
	case "P1":
		if !(*P1)(p).P.ok(want[0]) {
			return bad("referenced object damaged or replaced")
		}
	case "P2":
		s := (*P2)(p).S
		if len(s) != len(want) {
			return bad(fmt.Sprintf("slice has length %d", len(s)))
		}
		for i := range s {
			if !s[i].ok(want[i]) {
				return bad("object referenced by slice damaged")
			}
		}
	case "P3":
		m := (*P3)(p).M
		if len(m) != 2 || !m[1].ok(want[0]) || !m[2].ok(want[1]) {
			return bad("object referenced by map damaged")
		}
	case "P4":
		c := (*P4)(p)
		if c.Name != fmt.Sprintf("canary-%016d", want[0]) || !c.P.ok(want[0]) {
			return bad(fmt.Sprintf("string %q or object damaged", c.Name))
		}
	case "P5":
		o, ok := (*P5)(p).I.(*Obj)
		if !ok || !o.ok(want[0]) {
			return bad("object referenced through interface damaged")
		}
	case "P6":
		if o := *(*P6)(p); !o.ok(want[0]) {
			return bad("object referenced by a pointer-typed component damaged")
		}
	case "P7":
		f := (*P7)(p).F
		if f == nil || !f().ok(want[0]) {
			return bad("object captured by a closure damaged")
		}
	case "P8":
		ch := (*P8)(p).C
		if ch == nil || len(ch) != 1 {
			return bad("channel lost or emptied")
		}
		o := <-ch
		ch <- o
		if !o.ok(want[0]) {
			return bad("object held in a channel damaged")
		}
	case "P9":
		c := (*P9)(p)
		if c.N != want[0] || !(*Obj)(c.U).ok(want[0]) {
			return bad("object referenced through unsafe.Pointer damaged")
		}
	case "PA":
		c := (*PA)(p)
		if c.Pad[0] != want[0] || c.Pad[639] != ^want[0] || !c.P.ok(want[0]) {
			return bad("large component or the object referenced at its end damaged")
		}
	}
	g.cov.N["canary_checks"] += len(want)
	return true
}

func (g *gcWorld) attach(e ecs.Entity, name string, ids []uint64, tracked bool) {
	if g.model[e] == nil {
		g.model[e] = map[string][]uint64{}
	}
	g.detach(e, name)
	g.model[e][name] = ids
	if tracked {
		for _, id := range ids {
			g.tracked[id]++
		}
	}
}

func (g *gcWorld) detach(e ecs.Entity, name string) {
	for _, id := range g.model[e][name] {
		if n, ok := g.tracked[id]; ok {
			if n <= 1 {
				delete(g.tracked, id)
				g.released = append(g.released, id)
			} else {
				g.tracked[id] = n - 1
			}
		}
	}
	delete(g.model[e], name)
}

func (g *gcWorld) dropEntity(e ecs.Entity) {
	for name := range g.model[e] {
		g.detach(e, name)
	}
	delete(g.model, e)
	delete(g.plain, e)
	delete(g.targets, e)
}

func (g *gcWorld) alive() []ecs.Entity {
	r := make([]ecs.Entity, 0, len(g.model))
	for e := range g.model {
		r = append(r, e)
	}
	sortEnts(r)
	return r
}

// checkAll verifies every live component and that no referenced tracked canary was finalized.
func (g *gcWorld) checkAll(viaQuery bool) bool {
	if viaQuery {
		q := g.w.Query(ecs.All())
		n := 0
		for q.Next() {
			e := q.Entity()
			n++
			for name, want := range g.model[e] {
				if !g.verify(e, name, q.Get(g.ids[name]), want) {
					q.Close()
					return false
				}
			}
		}
		if n != len(g.model) {
			g.fail("gc.entities", "query visits %d entities, model has %d", n, len(g.model))
			return false
		}
	} else {
		for e, comps := range g.model {
			if !g.w.Alive(e) {
				g.fail("gc.entities", "entity %v not alive", e)
				return false
			}
			for name, want := range comps {
				if !g.verify(e, name, g.w.Get(e, g.ids[name]), want) {
					return false
				}
			}
		}
	}
	for id := range g.tracked {
		if finalized(id) {
			g.fail("gc.finalized.alive", "canary %d was finalized although a live component references it", id)
			return false
		}
	}
	return true
}

// collect forces complete GC cycles and lets finalizers run.
func collect(cycles int) {
	for i := 0; i < cycles; i++ {
		runtime.GC()
		for k := 0; k < 20; k++ {
			runtime.Gosched()
		}
		time.Sleep(time.Millisecond)
	}
}

// checkReleased verifies that canaries only reachable from removed rows get collected.
// In-history checks work on aggregates with 2 % slack and carry what is still pending over to the next check; the
// check at the end of a case (final) is exact: after up to 24 forced cycles nothing released may still be reachable.
func (g *gcWorld) checkReleased(min int, final bool) bool {
	if len(g.released) < min {
		return true
	}
	pending := 0
	rounds := 6
	if final {
		rounds = 12
	}
	for round := 0; round < rounds; round++ {
		collect(2)
		pending = 0
		for _, id := range g.released {
			if !finalized(id) {
				pending++
			}
		}
		if pending == 0 {
			break
		}
	}
	total := len(g.released)
	g.cov.N["released_canaries"] += total
	g.cov.N["released_finalized"] += total - pending
	if pending*50 > total || (final && pending > 0) { // more than 2 % still reachable; at the end: any
		g.fail("gc.retained", "%d of %d canaries that were only reachable from removed components/entities are still not collected after %d forced GC cycles", pending, total, 2*rounds)
		return false
	}
	keep := g.released[:0]
	for _, id := range g.released {
		if !finalized(id) {
			keep = append(keep, id)
		}
	}
	g.released = keep
	g.cov.N["released_carried_over"] += len(keep)
	return true
}

func (g *gcWorld) has(e ecs.Entity, name string) bool {
	if _, ok := g.model[e][name]; ok {
		return true
	}
	return g.plain[e][name]
}

func (g *gcWorld) setPlain(e ecs.Entity, name string, v bool) {
	if g.plain[e] == nil {
		g.plain[e] = map[string]bool{}
	}
	if v {
		g.plain[e][name] = true
	} else {
		delete(g.plain[e], name)
	}
}

// opCreate creates entities whose pointer components are supplied along one of the supply paths.
func (g *gcWorld) opCreate(typedOnly bool) {
	w, r := g.w, g.r
	name := Pick(r, g.pids)
	id := g.ids[name]
	path := r.Intn(8)
	if typedOnly {
		path = r.Intn(2) * 6 // 0 or 6: typed stores only
	}
	g.cov.N[fmt.Sprintf("supply_path_%d", path)]++
	switch path {
	case 0: // NewEntity + write through Get pointer
		e := w.NewEntity(id, g.ids["V1"])
		g.model[e] = map[string][]uint64{}
		g.setPlain(e, "V1", true)
		v, ids := g.mkValue(name)
		store(name, w.Get(e, id), v)
		g.attach(e, name, ids, true)
	case 1: // NewEntityWith
		v, ids := g.mkValue(name)
		e := w.NewEntityWith(ecs.Component{ID: id, Comp: v})
		g.attach(e, name, ids, true)
	case 2: // NewBuilderWith(...).New
		if g.keptB != nil {
			// the Builder made some steps ago: every entity it creates gets a copy of the value it was given
			e := g.keptB.New()
			g.setPlain(e, "V2", true)
			g.attach(e, g.keptName, g.keptIDs, true)
			g.cov.N["kept_builder_uses"]++
			if r.Chance(0.3) {
				g.dropBuilder()
			}
			return
		}
		if r.Chance(0.5) {
			v, ids := g.mkValue(name)
			g.keptB = ecs.NewBuilderWith(w, ecs.Component{ID: id, Comp: v}, ecs.Component{ID: g.ids["V2"], Comp: &V2{1, 2}})
			g.keptName, g.keptIDs = name, ids
			for _, cid := range ids {
				g.tracked[cid]++
			}
			g.cov.N["kept_builders"]++
			return
		}
		v, ids := g.mkValue(name)
		e := ecs.NewBuilderWith(w, ecs.Component{ID: id, Comp: v}, ecs.Component{ID: g.ids["V2"], Comp: &V2{1, 2}}).New()
		g.setPlain(e, "V2", true)
		g.attach(e, name, ids, true)
	case 3: // NewBuilderWith(...).NewBatchQ: one value copied to n entities
		v, ids := g.mkValue(name)
		n := 1 + r.Intn(6)
		q := ecs.NewBuilderWith(w, ecs.Component{ID: id, Comp: v}).NewBatchQ(n)
		for q.Next() {
			g.attach(q.Entity(), name, ids, true)
		}
	case 4: // non-escaping literal shapes
		n := g.newID()
		var e ecs.Entity
		if r.Chance(0.5) {
			e = shapeNewEntityWithLiteral(w, g.ids["P1"], n)
		} else {
			e = shapeGenericNewWithLiteral(w, n)
		}
		clobberSink += clobberStack(6)
		g.attach(e, "P1", []uint64{n}, false)
		g.cov.N["literal_shape_calls"]++
	case 5: // literal through a batch builder
		n := g.newID()
		cnt := 1 + r.Intn(4)
		before := map[ecs.Entity]bool{}
		for e := range g.model {
			before[e] = true
		}
		shapeBuilderLiteral(w, g.ids["P1"], n, cnt)
		clobberSink += clobberStack(6)
		q := w.Query(ecs.All(g.ids["P1"]))
		for q.Next() {
			if !before[q.Entity()] {
				g.attach(q.Entity(), "P1", []uint64{n}, false)
			}
		}
		g.cov.N["literal_shape_calls"]++
	case 7: // clone of a template entity: every value is supplied as a pointer into the world's own storage, and the
		// clone goes into the template's own table (which may have to grow for it)
		cands := []ecs.Entity{}
		for _, e := range g.alive() {
			if len(g.model[e]) > 0 && !g.plain[e]["Rel"] {
				cands = append(cands, e)
			}
		}
		if len(cands) == 0 {
			return
		}
		tmpl := Pick(r, cands)
		byID := map[ecs.ID]string{}
		for n, i := range g.ids {
			byID[i] = n
		}
		comps := []ecs.Component{}
		for _, cid := range w.Ids(tmpl) {
			n, ok := byID[cid]
			if !ok {
				return // a filler type: not something this harness can address by a typed pointer
			}
			comps = append(comps, ecs.Component{ID: cid, Comp: typedPtr(n, w.Get(tmpl, cid))})
		}
		var e ecs.Entity
		switch r.Intn(3) {
		case 0:
			e = w.NewEntityWith(comps...)
		case 1:
			e = ecs.NewBuilderWith(w, comps...).New()
		default:
			e = w.NewEntity()
			w.Assign(e, comps...)
		}
		for n, ids := range g.model[tmpl] {
			tracked := false
			if len(ids) > 0 {
				_, tracked = g.tracked[ids[0]]
			}
			g.attach(e, n, ids, tracked)
		}
		if g.model[e] == nil {
			g.model[e] = map[string][]uint64{}
		}
		for n, has := range g.plain[tmpl] {
			if has {
				g.setPlain(e, n, true)
			}
		}
		g.cov.N["template_clones"]++
	default: // NewBatchQ of zeroed components + writes through Query.Get
		q := ecs.NewBuilder(w, id, g.ids["V3"]).NewBatchQ(1 + r.Intn(5))
		for q.Next() {
			e := q.Entity()
			g.model[e] = map[string][]uint64{}
			g.setPlain(e, "V3", true)
			v, ids := g.mkValue(name)
			store(name, q.Get(id), v)
			g.attach(e, name, ids, true)
		}
	}
}

// opOverwrite replaces the value of an existing pointer component.
func (g *gcWorld) opOverwrite(typedOnly bool) {
	es := g.alive()
	if len(es) == 0 {
		return
	}
	e := Pick(g.r, es)
	names := []string{}
	for n := range g.model[e] {
		names = append(names, n)
	}
	if len(names) == 0 {
		return
	}
	sortStrings(names)
	name := Pick(g.r, names)
	id := g.ids[name]
	path := g.r.Intn(5)
	if typedOnly {
		path = 0
	}
	g.cov.N[fmt.Sprintf("overwrite_path_%d", path)]++
	switch path {
	case 0:
		v, ids := g.mkValue(name)
		store(name, g.w.Get(e, id), v)
		g.attach(e, name, ids, true)
	case 1:
		v, ids := g.mkValue(name)
		g.w.Set(e, id, v)
		g.attach(e, name, ids, true)
	case 2:
		if name != "P1" {
			v, ids := g.mkValue(name)
			g.w.Set(e, id, v)
			g.attach(e, name, ids, true)
			return
		}
		v, ids := g.mkValue("P1")
		m := generic.NewMap[P1](g.w)
		m.Set(e, v.(*P1))
		g.attach(e, name, ids, true)
	case 3: // literal shapes
		n := g.newID()
		switch name {
		case "P1":
			if g.r.Chance(0.5) {
				shapeSetLiteral(g.w, e, id, n)
			} else {
				shapeGenericSetLiteral(g.w, e, n)
			}
		case "P4":
			shapeStringLiteral(g.w, e, id, n)
		default:
			return
		}
		clobberSink += clobberStack(6)
		g.attach(e, name, []uint64{n}, false)
		g.cov.N["literal_shape_calls"]++
	default: // Assign a new pointer component
		cands := []string{}
		for _, p := range g.pids {
			if !g.has(e, p) {
				cands = append(cands, p)
			}
		}
		if len(cands) == 0 {
			return
		}
		nm := Pick(g.r, cands)
		if nm == "P1" && g.r.Chance(0.4) {
			n := g.newID()
			shapeAssignLiteral(g.w, e, g.ids["P1"], n)
			clobberSink += clobberStack(6)
			g.attach(e, "P1", []uint64{n}, false)
			g.cov.N["literal_shape_calls"]++
			return
		}
		v, ids := g.mkValue(nm)
		g.w.Assign(e, ecs.Component{ID: g.ids[nm], Comp: v})
		g.attach(e, nm, ids, true)
	}
}

func sortStrings(s []string) {
	for i := 1; i < len(s); i++ {
		for j := i; j > 0 && s[j] < s[j-1]; j-- {
			s[j], s[j-1] = s[j-1], s[j]
		}
	}
}

// opMove relocates rows: add/remove plain components, relation targets, batch forms.
func (g *gcWorld) opMove() {
	w, r := g.w, g.r
	es := g.alive()
	if len(es) == 0 {
		return
	}
	e := Pick(r, es)
	switch r.Intn(8) {
	case 7: // batch add of a pointer component: the movers join entities that hold that component already
		p := Pick(r, g.pids)
		v := Pick(r, []string{"V1", "V2", "V3"})
		f := ecs.All(g.ids[v]).Without(g.ids[p])
		movers := []ecs.Entity{}
		for _, o := range es {
			if g.has(o, v) && !g.has(o, p) {
				movers = append(movers, o)
			}
		}
		if r.Chance(0.5) {
			w.Batch().Add(&f, g.ids[p])
		} else {
			q := w.Batch().AddQ(&f, g.ids[p])
			for q.Next() {
			}
		}
		for _, o := range movers {
			val, ids := g.mkValue(p)
			store(p, w.Get(o, g.ids[p]), val)
			g.attach(o, p, ids, true)
		}
		g.cov.N["batch_pointer_component_added"] += len(movers)
	case 6: // batch removal / exchange of a pointer component itself (whole tables move, the removed column stays behind)
		p := Pick(r, g.pids)
		v := Pick(r, []string{"V1", "V2", "V3"})
		switch r.Intn(3) {
		case 0:
			w.Batch().Remove(ecs.All(g.ids[p]), g.ids[p])
			for o := range g.model {
				if _, ok := g.model[o][p]; ok {
					g.detach(o, p)
				}
			}
		case 1:
			f := ecs.All(g.ids[p]).Without(g.ids[v])
			w.Batch().Exchange(&f, []ecs.ID{g.ids[v]}, []ecs.ID{g.ids[p]})
			for o := range g.model {
				if _, ok := g.model[o][p]; ok && !g.has(o, v) {
					g.detach(o, p)
					g.setPlain(o, v, true)
				}
			}
		default:
			// through a relation exchange: children of one target lose the pointer component and get another target
			t := Pick(r, es)
			f := ecs.All(g.ids[p], g.rel)
			w.Relations().ExchangeBatch(&f, nil, []ecs.ID{g.ids[p]}, g.rel, t)
			for o := range g.model {
				if _, ok := g.model[o][p]; ok && g.plain[o]["Rel"] {
					g.detach(o, p)
					g.targets[o] = t
				}
			}
		}
		g.cov.N["batch_pointer_component_removed"]++
	case 0, 1:
		name := Pick(r, []string{"V1", "V2", "V3"})
		if g.has(e, name) {
			w.Remove(e, g.ids[name])
			g.setPlain(e, name, false)
		} else {
			w.Add(e, g.ids[name])
			g.setPlain(e, name, true)
		}
		g.cov.N["moves_single"]++
	case 2:
		if g.has(e, "Rel") {
			t := Pick(r, es)
			if r.Chance(0.2) {
				t = ecs.Entity{}
			}
			w.Relations().Set(e, g.rel, t)
			g.targets[e] = t
		} else {
			t := Pick(r, es)
			ecs.NewBuilder(w, g.rel).WithRelation(g.rel).Add(e, t)
			g.setPlain(e, "Rel", true)
			g.targets[e] = t
		}
		g.cov.N["moves_relation"]++
	case 3: // batch add / remove of a plain component over a pointer component's tables
		p := Pick(r, g.pids)
		v := Pick(r, []string{"V1", "V2", "V3"})
		add := r.Chance(0.5)
		var f ecs.MaskFilter
		if add {
			f = ecs.All(g.ids[p]).Without(g.ids[v])
			w.Batch().Add(&f, g.ids[v])
		} else {
			m := ecs.All(g.ids[p], g.ids[v])
			w.Batch().Remove(m, g.ids[v])
		}
		for o := range g.model {
			if _, ok := g.model[o][p]; ok {
				g.setPlain(o, v, add)
			}
		}
		g.cov.N["moves_batch"]++
	case 4: // remove a pointer component
		names := []string{}
		for n := range g.model[e] {
			names = append(names, n)
		}
		if len(names) == 0 {
			return
		}
		sortStrings(names)
		n := Pick(r, names)
		w.Remove(e, g.ids[n])
		g.detach(e, n)
		g.cov.N["pointer_component_removed"]++
	default: // swap-remove: remove an entity
		w.RemoveEntity(e)
		g.dropEntity(e)
		g.cov.N["entities_removed"]++
	}
}

func (g *gcWorld) opBulk() {
	w, r := g.w, g.r
	switch r.Intn(3) {
	case 0:
		p := Pick(r, g.pids)
		w.Batch().RemoveEntities(ecs.All(g.ids[p]))
		for e := range g.model {
			if _, ok := g.model[e][p]; ok {
				g.dropEntity(e)
			}
		}
		g.cov.N["batch_removals"]++
	case 1:
		w.Reset()
		for e := range g.model {
			g.dropEntity(e)
		}
		g.cov.N["resets"]++
	default:
		// batch relation change
		t := ecs.Entity{}
		if es := g.alive(); len(es) > 0 {
			t = Pick(r, es)
		}
		w.Batch().SetRelation(ecs.All(g.rel), g.rel, t)
		for e := range g.model {
			if g.plain[e]["Rel"] {
				g.targets[e] = t
			}
		}
		g.cov.N["moves_batch"]++
	}
}

func numGC() uint32 {
	var ms runtime.MemStats
	runtime.ReadMemStats(&ms)
	return ms.NumGC
}

// C14: pointers in components under garbage collection.
func caseC14(c *Ctx) {
	mode := c.Mode
	g := newGCWorld(c.R, c.Cov)
	gc0 := numGC()
	var stop atomic.Bool
	done := make(chan struct{})
	churners := 0
	old := 100
	switch mode {
	case "r1":
		old = debug.SetGCPercent(-1)
	case "r2", "r3":
		old = debug.SetGCPercent(1)
		churners = 2
	}
	for i := 0; i < churners; i++ {
		go func() { churn(&stop); done <- struct{}{} }()
	}
	defer func() {
		stop.Store(true)
		for i := 0; i < churners; i++ {
			<-done
		}
		debug.SetGCPercent(old)
	}()
	steps := 400
	if mode == "r2" {
		steps = 3000
	}
	if mode == "r3" {
		steps = 60000
	}
	movesAfterGC := 0
	sinceGC := false
	for g.step = 0; g.step < steps && len(g.viol) == 0; g.step++ {
		r := c.R
		switch mode {
		case "r1":
			switch r.Weighted([]int{4, 4, 8, 1}) {
			case 0:
				if len(g.model) < 60 {
					g.opCreate(false)
				}
			case 1:
				g.opOverwrite(false)
			case 2:
				g.opMove()
				if sinceGC {
					movesAfterGC++
					sinceGC = false
				}
			default:
				g.opBulk()
			}
			if r.Chance(0.12) {
				runtime.GC()
				sinceGC = true
				g.cov.N["forced_gc"]++
			}
			if g.step%25 == 24 {
				collect(1)
				g.checkAll(g.step%50 == 49)
			}
			if g.step%100 == 99 && len(g.viol) == 0 {
				g.checkReleased(200, false)
			}
		case "r2":
			// typed paths only: creation, growth, writes through pointers, queries
			if r.Chance(0.5) && len(g.model) < 400 {
				g.opCreate(true)
			} else {
				g.opOverwrite(true)
			}
			if g.step%100 == 99 {
				g.checkAll(g.step%200 == 199)
			}
		case "r3":
			switch r.Weighted([]int{3, 3, 10}) {
			case 0:
				if len(g.model) < 80 {
					g.opCreate(false)
				}
			case 1:
				g.opOverwrite(false)
			default:
				g.opMove()
			}
			if g.step%200 == 199 {
				g.checkAll(false)
			}
		}
	}
	if len(g.viol) == 0 {
		g.checkAll(true)
	}
	if len(g.viol) == 0 && mode == "r1" {
		// everything released at the end must be collectable
		g.w.Reset()
		g.dropBuilder()
		for e := range g.model {
			g.dropEntity(e)
		}
		g.checkReleased(1, true)
	}
	cycles := int(numGC() - gc0)
	g.cov.N["gc_cycles"] += cycles
	g.cov.N["moves_after_gc"] += movesAfterGC
	c.Sample(map[string]any{"mode": mode, "steps": g.step, "gc_cycles": cycles, "entities_at_end": len(g.model), "literal_shape_calls": g.cov.N["literal_shape_calls"]})
	if len(g.viol) > 0 {
		for _, v := range g.viol {
			if mode == "r3" {
				v.Kind = "r3:" + v.Kind
			}
			c.Fail(v, map[string]any{"mode": mode, "step": g.step})
		}
		return
	}
	if (mode == "r1" && movesAfterGC >= 3) || (mode != "r1" && cycles >= 3) {
		c.NonTrivial(HashStr(fmt.Sprint(mode, c.Seed, c.Case)))
	}
	_ = reflect.TypeOf
}
