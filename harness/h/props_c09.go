package h

import (
	"fmt"
	"strings"

	"github.com/mlange-42/arche/ecs"
	"github.com/mlange-42/arche/ecs/event"
	"github.com/mlange-42/arche/generic"
	"github.com/mlange-42/arche/listener"
)

func init() { CaseFns["C09"] = caseC09 }

// LockRow is a structural entry point (with a variant) that must be rejected while the world is locked.
type LockRow struct {
	Name string
	Kind string
	Fix  func(g *Gen, op *Op) bool // force the variant; false: not applicable
}

// LockRows lists the ID-based structural entry points.
func LockRows() []LockRow {
	q := func(v bool) func(g *Gen, op *Op) bool {
		return func(g *Gen, op *Op) bool { op.Q = v; return true }
	}
	vals := func(v bool) func(g *Gen, op *Op) bool {
		return func(g *Gen, op *Op) bool {
			if v && len(op.Add) == 0 {
				return false
			}
			if v {
				op.Vals = g.vals(len(op.Add))
			} else {
				op.Vals = nil
			}
			return true
		}
	}
	both := func(fs ...func(g *Gen, op *Op) bool) func(g *Gen, op *Op) bool {
		return func(g *Gen, op *Op) bool {
			for _, f := range fs {
				if !f(g, op) {
					return false
				}
			}
			return true
		}
	}
	alt := func(v bool) func(g *Gen, op *Op) bool {
		return func(g *Gen, op *Op) bool { op.Alt = v; return true }
	}
	withT := func(g *Gen, op *Op) bool { return op.T != nil }
	return []LockRow{
		{"NewEntity", "NewEntity", nil},
		{"NewEntityWith", "NewEntityWith", nil},
		{"BuilderNew.ids", "BuilderNew", vals(false)},
		{"BuilderNew.vals", "BuilderNew", vals(true)},
		{"BuilderNew.target", "BuilderNew", withT},
		{"RemoveEntity", "RemoveEntity", nil},
		{"Add", "Add", nil},
		{"Remove", "Remove", nil},
		{"Exchange", "Exchange", nil},
		{"Assign", "Assign", nil},
		{"RelSet", "RelSet", nil},
		{"RelExchange", "RelExchange", nil},
		{"BuilderAdd.ids", "BuilderAdd", vals(false)},
		{"BuilderAdd.vals", "BuilderAdd", vals(true)},
		{"BuilderAdd.target", "BuilderAdd", withT},
		{"NewBatch", "NewBatch", both(q(false), vals(false))},
		{"NewBatch.q", "NewBatch", both(q(true), vals(false))},
		{"NewBatch.vals", "NewBatch", both(q(false), vals(true))},
		{"NewBatch.vals.q", "NewBatch", both(q(true), vals(true))},
		{"NewBatch.target", "NewBatch", withT},
		{"BatchAdd", "BatchAdd", q(false)},
		{"BatchAdd.q", "BatchAdd", q(true)},
		{"BatchRemove", "BatchRemove", q(false)},
		{"BatchRemove.q", "BatchRemove", q(true)},
		{"BatchExchange", "BatchExchange", q(false)},
		{"BatchExchange.q", "BatchExchange", q(true)},
		{"BatchSetRel", "BatchSetRel", both(q(false), alt(false))},
		{"BatchSetRel.q", "BatchSetRel", both(q(true), alt(false))},
		{"BatchSetRel.alt", "BatchSetRel", both(q(false), alt(true))},
		{"BatchSetRel.alt.q", "BatchSetRel", both(q(true), alt(true))},
		{"RelExchangeBatch", "RelExchangeBatch", q(false)},
		{"RelExchangeBatch.q", "RelExchangeBatch", q(true)},
		{"BatchRemoveEntities", "BatchRemoveEntities", nil},
		{"Reset", "Reset", nil},
		{"RegisterType", "RegisterType", nil},
		{"LoadEntities", "LoadEntities", nil},
	}
}

// genRow draws a legal op for a row in the current state (nil: not applicable now).
func genRow(g *Gen, row *LockRow) *Op {
	if row.Kind == "LoadEntities" {
		return &Op{K: "LoadEntities"}
	}
	for try := 0; try < 30; try++ {
		op := g.gen(row.Kind)
		if op == nil {
			continue
		}
		if isBatchKind(op.K) && op.K != "NewBatch" && op.K != "BatchRemoveEntities" && len(op.Add)+len(op.Rem) == 0 && op.K != "BatchSetRel" && !g.allowEmptyBatch {
			continue // on an unlocked world an empty exchange does nothing at all; not a structural change
		}
		if (op.K == "Add" || op.K == "Remove" || op.K == "Exchange") && len(op.Add)+len(op.Rem) == 0 {
			continue
		}
		if row.Fix != nil && !row.Fix(g, op) {
			continue
		}
		op.Trav = 0
		return op
	}
	return nil
}

type heldQuery struct {
	q    ecs.Query
	kind string
}

func init() {
	extraCalls["LoadEntities"] = func(s *Sess, op *Op, out *Outcome) {
		d := s.W.DumpEntities()
		s.W.LoadEntities(&d)
	}
	extraApply["LoadEntities"] = func(s *Sess, op *Op, out *Outcome) []ExpEvent { return nil }
}

// attemptAll tries every structural entry point on the locked world; each must panic and change nothing.
func attemptAll(s *Sess, g *Gen, rows []LockRow, source string, fullSnap bool) bool {
	for i := range rows {
		row := &rows[i]
		// (a batch exchange with nothing to add or remove is a batch operation all the same: locked means rejected)
		g.allowEmptyBatch = true
		op := genRow(g, row)
		g.allowEmptyBatch = false
		if op == nil {
			continue
		}
		if isBatchKind(op.K) && op.K != "NewBatch" && op.K != "BatchRemoveEntities" && op.K != "BatchSetRel" && g.R.Chance(0.15) {
			op.Add, op.Rem, op.Vals = nil, nil, nil
			s.Cov.N["locked_empty_batch_exchange"]++
		}
		// (the key of a rejected registration is not offered again: the next successful registration is of a
		// different type and must not inherit anything from the rejected one)
		fr := &FaultRow{Name: "locked." + row.Name, Atomic: true}
		if !fullSnap {
			fr.Atomic = false
		}
		var core string
		if !fullSnap && HooksOn {
			core, _ = hookShape(s.W)
		}
		regBefore := len(ecs.ComponentIDs(s.W))
		// on a locked world the rejection comes before anything else: even what World.Stats reports about nodes,
		// tables, capacities and memory must be what it was
		statsBefore := s.W.Stats().String()
		if !InjectFault(s, fr, op) {
			return false
		}
		if st := s.W.Stats().String(); st != statsBefore {
			s.fail("illegal.changed.stats:locked."+row.Name, "rejected call on a locked world changed what World.Stats reports: %s", firstDiff(statsBefore, st))
			return false
		}
		if !fullSnap && HooksOn {
			if c2, _ := hookShape(s.W); c2 != core {
				s.fail("illegal.changed.hidden:locked."+row.Name, "rejected call on a locked world changed hidden state: %s", firstDiff(core, c2))
				return false
			}
		}
		if n := len(ecs.ComponentIDs(s.W)); n != regBefore {
			s.fail("illegal.changed:locked.registry", "rejected %s on a locked world changed the registry from %d to %d types", row.Name, regBefore, n)
			return false
		}
		s.Cov.N["lockrow:"+row.Name]++
		s.Cov.N["locksource:"+source]++
	}
	return true
}

// succeedAll runs every structural entry point on the unlocked world; each must succeed and satisfy the model.
func succeedAll(s *Sess, g *Gen, rows []LockRow) bool {
	for i := range rows {
		row := &rows[i]
		if row.Kind == "Reset" || row.Kind == "LoadEntities" {
			continue
		}
		op := genRow(g, row)
		if op == nil {
			continue
		}
		s.Do(op)
		if s.Failed() {
			return false
		}
		if row.Kind == "RegisterType" && !checkRegistry(s, "after registering a type on the unlocked world") {
			return false
		}
		s.Cov.N["unlocked_ok:"+row.Name]++
	}
	s.Do(&Op{K: "Reset"})
	if s.Failed() {
		return false
	}
	s.Do(&Op{K: "LoadEntities"})
	s.Cov.N["unlocked_ok:Reset"]++
	s.Cov.N["unlocked_ok:LoadEntities"]++
	return !s.Failed()
}

func lockLedger(s *Sess, held int, where string) bool {
	if s.W.IsLocked() != (held > 0) {
		s.fail("lock.state", "%s: IsLocked()=%v with %d queries open", where, s.W.IsLocked(), held)
		return false
	}
	if HooksOn {
		if n := hookLocks(s.W); n != held {
			s.fail("lock.count", "%s: %d lock bits held, %d queries open", where, n, held)
			return false
		}
		if err := hookInv(s.W); err != nil {
			s.fail("inv:"+invKey(err.Error()), "%s: %v", where, err)
			return false
		}
	}
	s.Cov.N["lock_ledger_checks"]++
	return true
}

// openQuery opens a query of the given source kind and keeps it open.
func openQuery(s *Sess, g *Gen, kind string) (ecs.Query, bool) {
	w := s.W
	switch kind {
	case "plain":
		return w.Query(g.Filter(2, true).Build(s.IDs, entOf)), true
	case "cached":
		if len(s.regs) == 0 {
			return ecs.Query{}, false
		}
		r := s.regs[Pick(g.R, sortedSlots(s.regs))]
		return w.Query(&r.cached), true
	case "batch.empty":
		if w.IsLocked() {
			return ecs.Query{}, false
		}
		return w.Batch().ExchangeQ(g.Filter(1, true).Build(s.IDs, entOf), nil, nil), true
	case "batch.new":
		if w.IsLocked() {
			return ecs.Query{}, false
		}
		ids := g.subset(g.nonRels(), 3, false)
		n := 1 + g.R.Intn(4)
		q := ecs.NewBuilder(w, s.ids(ids)...).NewBatchQ(n)
		for _, e := range s.discoverNew() {
			s.M.Create(e, ids, nil, ecs.Entity{})
		}
		return q, true
	}
	return ecs.Query{}, false
}

// release ends a query along one of the release paths.
func release(q *ecs.Query, path int) string {
	switch path % 6 {
	case 0:
		for q.Next() {
		}
		return "next"
	case 1:
		for q.Step(1 + path/6%4) {
		}
		return "step"
	case 2:
		q.Close()
		return "close"
	case 3:
		if q.Next() {
			q.Close()
		}
		return "closemid"
	case 4:
		if q.Count() > 0 {
			q.EntityAt(0)
		}
		q.Close()
		return "count.close"
	default:
		n := q.Count()
		for i := 0; i < n; i++ {
			q.EntityAt(i)
		}
		for q.Next() {
		}
		return "count.next"
	}
}

// C09: world lock.
func caseC09(c *Ctx) {
	if c.Mode == "ledger" {
		caseC09Ledger(c)
		return
	}
	rows := LockRows()
	limit := ecs.MaskTotalBits
	cfg := GenCfg(c.R, 40)
	p := DefaultProfile()
	p.Steps = 40 + c.R.Intn(50)
	p.Late = lateKeys(c.R, 40)
	for i := range p.Late {
		if i%2 == 0 {
			p.Late[i] = "X" + p.Late[i][1:] // relation types and plain types alternate
		}
	}
	p.W["CacheRegister"] = 5
	p.W["RegisterType"] = 0
	p.Zero("Reset")
	s := NewSess(cfg, Opts{Model: true, Sweep: true, Inv: true, Track: true, NoTrans: true})
	g := NewGen(c.R, s, p)
	for i := 0; i < p.Steps && !s.Failed(); i++ {
		s.Do(g.Next())
	}
	p.W["RegisterType"] = 1
	nontrivial := false
	switch c.Mode {
	case "", "queries":
		depth := Pick(c.R, []int{1, 1, 2, 2, 3, 5, 9})
		if c.Case%10 == 9 {
			depth = Pick(c.R, []int{limit / 2, limit - 1, limit})
		}
		held := []heldQuery{}
		kinds := []string{"plain", "cached", "batch.empty", "batch.new"}
		for len(held) < depth && !s.Failed() {
			k := Pick(c.R, kinds)
			q, ok := openQuery(s, g, k)
			if !ok {
				continue
			}
			held = append(held, heldQuery{q, k})
			s.open = len(held)
			if !lockLedger(s, len(held), "after opening a "+k+" query") {
				break
			}
		}
		if !s.Failed() {
			src := held[len(held)-1].kind
			if len(held) > 1 {
				src = "nested." + src
			}
			if attemptAll(s, g, rows, src, len(held) < limit) {
				if len(s.M.Alive) > 0 && len(held) >= 2 {
					nontrivial = true
				}
			}
		}
		// release in random order, each along its own path
		for len(held) > 0 && !s.Failed() {
			i := c.R.Intn(len(held))
			path := release(&held[i].q, c.R.Intn(24))
			s.Cov.N["release:"+held[i].kind+"."+path]++
			held = append(held[:i], held[i+1:]...)
			s.open = len(held)
			if !lockLedger(s, len(held), "after releasing a query by "+path) {
				break
			}
		}
		if !s.Failed() {
			s.CheckWorld()
		}
		if !s.Failed() {
			succeedAll(s, g, rows)
		}
		if !s.Failed() && c.Case%2 == 0 {
			genericUnderLock(s)
		}
	case "listener":
		// structural calls from inside a removal callback
		// the removal event reaches a listener through any of its type bits, not only EntityRemoved
		subs := Pick(c.R, []event.Subscription{event.EntityRemoved, event.EntityRemoved, event.ComponentRemoved, event.Relations, event.TargetChanged,
			event.Components, event.All, event.ComponentRemoved | event.RelationChanged, event.Entities})
		victim, _, ok := g.aliveWhere(func(e ecs.Entity, me *MEnt) bool {
			if subs&event.EntityRemoved != 0 {
				return true
			}
			if subs&event.ComponentRemoved != 0 && len(me.Comps) > 0 {
				return true
			}
			return subs&event.Relations != 0 && s.M.RelOf(me) >= 0
		})
		if !ok {
			break
		}
		s.Cov.N[fmt.Sprintf("removal_listener_subs_%06b", int(subs))]++
		ran := false
		cb := listener.NewCallback(func(w *ecs.World, e ecs.EntityEvent) {
			if ran || !e.Contains(event.EntityRemoved) {
				return
			}
			ran = true
			if !w.IsLocked() {
				s.fail("lock.removal", "world not locked while a removal event is delivered")
				return
			}
			s.open = 1
			if attemptAll(s, g, rows, "removal.listener", true) && len(s.M.Alive) > 1 {
				nontrivial = true
			}
			s.open = 0
		}, subs)
		s.W.SetListener(&cb)
		if c.Case%2 == 0 {
			s.W.RemoveEntity(victim)
			s.M.Remove(victim)
		} else {
			f := &FSpec{K: "excl", IDs: s.M.Alive[victim].IDs()}
			n := s.W.Batch().RemoveEntities(f.Build(s.IDs, entOf))
			ms := s.M.Matching(f)
			for _, e := range ms {
				s.M.Remove(e)
			}
			if n != len(ms) && !s.Failed() {
				s.fail("batch.count", "RemoveEntities returned %d, matched %d", n, len(ms))
			}
		}
		s.W.SetListener(nil)
		if !s.Failed() && !ran {
			s.fail("event.missing", "no removal event delivered")
		}
		if !s.Failed() {
			lockLedger(s, 0, "after the removal")
		}
		if !s.Failed() {
			s.CheckWorld()
		}
		if !s.Failed() {
			succeedAll(s, g, rows)
		}
	case "capacity":
		// the full number of locks can be held at once, again and again
		for cycle := 0; cycle < 3 && !s.Failed(); cycle++ {
			qs := []ecs.Query{}
			for i := 0; i < limit; i++ {
				func() {
					defer func() {
						if r := recover(); r != nil {
							s.fail("lock.capacity", "opening query %d of %d (cycle %d) panicked: %v", i+1, limit, cycle, r)
						}
					}()
					k := "plain"
					if i == 0 {
						k = "batch.empty"
					} else if i%3 == 1 && len(s.regs) > 0 {
						k = "cached"
					}
					q, _ := openQuery(s, g, k)
					qs = append(qs, q)
				}()
				if s.Failed() {
					break
				}
			}
			if s.Failed() {
				break
			}
			s.open = len(qs)
			if !lockLedger(s, len(qs), "with all locks held") {
				break
			}
			if cycle == 0 {
				attemptAll(s, g, rows[:8], "nested.full", false)
			}
			Shuffle(c.R, qs)
			for i := range qs {
				release(&qs[i], c.R.Intn(24))
			}
			s.open = 0
			if !lockLedger(s, 0, fmt.Sprintf("after closing all %d queries (cycle %d)", limit, cycle)) {
				break
			}
			s.QueryCheck(ecs.All(), &FSpec{K: "all"}, cycle)
			s.Cov.N["lock_full_cycles"]++
			nontrivial = true
		}
		if !s.Failed() {
			succeedAll(s, g, rows)
		}
	}
	for k := range s.Cov.N {
		if strings.HasPrefix(k, "fault:locked.") {
			delete(s.Cov.N, k)
		}
	}
	finish(c, s, nontrivial)
}

// caseC09Ledger: full-mix histories under randomly restricted listeners (incl. Dispatch); the world must be
// unlocked after every operation (no query is open between operations) and locked inside every removal callback.
func caseC09Ledger(c *Ctx) {
	cfg := GenCfg(c.R, 40)
	p := DefaultProfile()
	p.Steps = 150
	p.Scale(3, "RemoveEntity", "BatchRemoveEntities", "NewBatch", "BatchExchange", "BatchSetRel")
	p.Zero("RegisterType")
	s := NewSess(cfg, Opts{Model: true, Inv: c.Case%2 == 0, Track: true, NoTrans: true})
	g := NewGen(c.R, s, p)
	inCallbackUnlocked := 0
	install := func() {
		mk := func() ecs.Listener {
			comps := []int{}
			if c.R.Chance(0.7) {
				comps = g.subsetAny(g.used(), 3)
			}
			cb := listener.NewCallback(func(w *ecs.World, e ecs.EntityEvent) {
				if e.Contains(event.EntityRemoved) && !w.IsLocked() {
					inCallbackUnlocked++
				}
				s.Cov.N["ledger_callbacks"]++
			}, event.Subscription(1+c.R.Intn(63)), s.ids(comps)...) // with or without the EntityRemoved bit: removal events also arrive through ComponentRemoved / RelationChanged / TargetChanged
			return &cb
		}
		if c.R.Chance(0.3) {
			d := listener.NewDispatch(mk(), mk())
			s.W.SetListener(&d)
		} else {
			s.W.SetListener(mk())
		}
		s.Cov.N["ledger_listeners_installed"]++
	}
	install()
	for i := 0; i < p.Steps && !s.Failed(); i++ {
		if c.R.Chance(0.05) {
			install()
		}
		s.Do(g.Next())
		if s.Failed() {
			break
		}
		if !lockLedger(s, 0, "after an operation with a restricted listener installed") {
			break
		}
		if inCallbackUnlocked > 0 {
			s.fail("lock.removal", "a removal event was delivered with the world unlocked")
		}
	}
	finish(c, s, s.Cov.N["ledger_callbacks"] >= 10 && s.Cov.N["batch_2tables"] >= 1)
}

type lockLate0 struct{ V uint64 }
type lockLate1 struct{ ecs.Relation }

// genericUnderLock uses the generic entry points with component types the world has not seen, on a locked world:
// registering a new type is a structural change, so each call must panic and change nothing - and the very same
// objects must work once the world is unlocked.
func genericUnderLock(s *Sess) {
	w := s.W
	nIDs := len(ecs.ComponentIDs(w))
	if nIDs+3 > ecs.MaskTotalBits {
		return
	}
	expect := nIDs + 3
	for _, id := range ecs.ComponentIDs(w) {
		if info, _ := ecs.ComponentInfo(w, id); info.Type == generic.T[G0]() {
			expect = nIDs + 2 // (the filter's first type is known already)
		}
	}
	f1 := generic.NewFilter2[G0, lockLate0]()
	f2 := generic.NewFilter1[lockLate1]().WithRelation(generic.T[lockLate1]())
	f0 := generic.NewFilter0().With(generic.T[lockLate0]())
	q := w.Query(ecs.All())
	s.open = 1
	before := s.PublicSnapshot()
	sh1, sh2 := hookShape(w)
	calls := []struct {
		name string
		f    func()
	}{
		{"Filter2.Query", func() { qq := f1.Query(w); qq.Close() }},
		{"Filter1.Query.relation", func() { qq := f2.Query(w); qq.Close() }},
		{"Filter0.Query", func() { qq := f0.Query(w); qq.Close() }},
		{"Filter2.Register", func() { f1.Register(w) }},
		{"NewMap1", func() { generic.NewMap1[lockLate0](w) }},
		{"NewMap", func() { generic.NewMap[lockLate1](w) }},
		{"Exchange.Adds", func() { generic.NewExchange(w).Adds(generic.T[lockLate0]()) }},
	}
	for _, cl := range calls {
		if !mustPanic(cl.f) {
			s.fail("illegal.nopanic:locked.generic."+cl.name+".newtype", "%s with a component type the world has not seen returned normally on a locked world", cl.name)
			break
		}
		a1, a2 := hookShape(w)
		if after := s.PublicSnapshot(); after != before || a1 != sh1 || a2 != sh2 || len(ecs.ComponentIDs(w)) != nIDs {
			s.fail("illegal.changed:locked.generic."+cl.name+".newtype", "the rejected %s changed the world: %s", cl.name, firstDiff(before, after))
			break
		}
		s.Cov.N["lockrow_generic:"+cl.name]++
	}
	q.Close()
	s.open = 0
	if s.Failed() {
		return
	}
	if w.IsLocked() {
		s.fail("lock.state", "world locked after the query was closed (rejected generic calls in between)")
		return
	}
	// unlocked: the same filter objects work, select nothing (no entity has the new types), and leave no lock
	for i, run := range []func() int{
		func() int { qq := f1.Query(w); n := qq.Count(); qq.Close(); return n },
		func() int { qq := f2.Query(w); n := qq.Count(); qq.Close(); return n },
		func() int {
			qq := f0.Query(w)
			n := 0
			for qq.Next() {
				n++
			}
			return n
		},
	} {
		n := -1
		if mustPanic(func() { n = run() }) || n != 0 {
			s.fail("lock.after:generic.Filter.Query", "generic filter %d, first used (and rejected) on the locked world, does not work after unlocking (selected %d, -1: panic)", i, n)
			return
		}
		if w.IsLocked() {
			s.fail("lock.state", "world locked after using generic filter %d, first used on the locked world", i)
			return
		}
	}
	if got := len(ecs.ComponentIDs(w)); got != expect {
		s.fail("lock.after:generic.registry", "after unlocking %d new types are registered as %d types", expect-nIDs, got-nIDs)
		return
	}
	// the late types are real now: an entity with them is selected
	m := generic.NewMap1[lockLate0](w)
	e := m.New()
	qq := f0.Query(w)
	n := 0
	for qq.Next() {
		if qq.Entity() == e {
			n++
		}
	}
	if n != 1 {
		s.fail("lock.after:generic.Filter.Query", "an entity created with the late type is selected %d times by the filter first used under lock", n)
	}
	w.RemoveEntity(e)
	s.Cov.N["generic_under_lock"]++
}
