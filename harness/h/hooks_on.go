//go:build verif

package h

import "github.com/mlange-42/arche/ecs"

// HooksOn reports whether the verif hooks are compiled in.
const HooksOn = true

func hookInv(w *ecs.World) error                            { return w.VerifCheckInvariants() }
func hookShape(w *ecs.World) (string, string)               { return w.VerifShape() }
func hookIDValue(id ecs.ID) int                             { return ecs.VerifIDValue(id) }
func hookTables(w *ecs.World) (int, int, int)               { return w.VerifTableStats() }
func hookLocate(w *ecs.World, e ecs.Entity) (int, int, int) { return w.VerifLocate(e) }
func hookCapSum(w *ecs.World) int                           { return w.VerifCapSum() }
func hookLocks(w *ecs.World) int                            { return w.VerifLocks() }
func hookResIDValue(id ecs.ResID) int                       { return ecs.VerifResIDValue(id) }
