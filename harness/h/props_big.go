package h

import (
	"encoding/json"
	"fmt"

	"github.com/mlange-42/arche/ecs"
)

// Mode "big" of C01, C02 and C03: tables with more than 65536 rows, so that row numbers, counts and batch ranges leave
// every narrow integer range. Entities are created in batches of that size, moved between tables one by one and in
// batches, removed from the middle (the last row moves into the hole) and re-created; after every round every handle,
// every component value and the Count / EntityAt / Step / iteration results of queries are compared with a flat model.

type bigA struct{ V uint64 }
type bigB struct{ V, W uint64 }
type bigC struct{}

type bigEnt struct {
	a    uint64
	hasB bool
	b    uint64
	hasC bool
}

func caseBig(c *Ctx) {
	R := c.R
	conf := ecs.NewConfig().WithCapacityIncrement(Pick(R, []int{128, 1000, 4096}))
	w := ecs.NewWorld(conf)
	for i := 0; i < R.Intn(4); i++ {
		ecs.TypeID(&w, TypeOfKey(fmt.Sprintf("F%d", 9700+i)))
	}
	idA := ecs.ComponentID[bigA](&w)
	idB := ecs.ComponentID[bigB](&w)
	idC := ecs.ComponentID[bigC](&w)
	model := map[ecs.Entity]*bigEnt{}
	dead := []ecs.Entity{}
	log := []string{}
	var serial uint64
	failed := false
	fail := func(kind, f string, a ...any) {
		if !failed {
			failed = true
			c.Fail(Violation{Kind: kind, Msg: fmt.Sprintf(f, a...)}, map[string]any{"log": log})
		}
	}
	create := func(n int, withB bool) {
		ids := []ecs.ID{idA}
		if withB {
			ids = append(ids, idB)
		}
		b := ecs.NewBuilder(&w, ids...)
		var q ecs.Query
		if R.Chance(0.5) {
			q = b.NewBatchQ(n)
		} else {
			before := len(model)
			b.NewBatch(n)
			_ = before
			f := ecs.All(ids...).Exclusive()
			q = w.Query(&f)
		}
		if q.Count() < n {
			fail("big.count", "a query over a table that just received %d new entities counts %d", n, q.Count())
			q.Close()
			return
		}
		seen := 0
		for q.Next() {
			e := q.Entity()
			if _, known := model[e]; known {
				continue // (second variant: the table's older rows)
			}
			serial++
			me := &bigEnt{a: serial, hasB: withB}
			(*bigA)(q.Get(idA)).V = serial
			if withB {
				me.b = serial * 3
				pb := (*bigB)(q.Get(idB))
				pb.V, pb.W = me.b, ^me.b
			}
			model[e] = me
			seen++
		}
		if seen != n {
			fail("big.created", "creating %d entities in one batch yielded %d new handles", n, seen)
		}
		log = append(log, fmt.Sprintf("create %d withB=%v", n, withB))
	}
	verify := func(where string) {
		if failed {
			return
		}
		for e, me := range model {
			if !w.Alive(e) {
				fail("big.handle", "%s: %v is reported dead, it was never removed", where, e)
				return
			}
			if v := (*bigA)(w.Get(e, idA)).V; v != me.a {
				fail("big.value", "%s: %v holds A=%d, it was given %d", where, e, v, me.a)
				return
			}
			if w.Has(e, idB) != me.hasB || w.Has(e, idC) != me.hasC {
				fail("big.mask", "%s: %v has B=%v C=%v, the history says B=%v C=%v", where, e, w.Has(e, idB), w.Has(e, idC), me.hasB, me.hasC)
				return
			}
			if me.hasB {
				if pb := (*bigB)(w.Get(e, idB)); pb.V != me.b || pb.W != ^me.b {
					fail("big.value", "%s: %v holds B=%d/%d, it was given %d/%d", where, e, pb.V, pb.W, me.b, ^me.b)
					return
				}
			}
		}
		for _, e := range dead {
			if w.Alive(e) {
				fail("big.handle", "%s: removed %v is reported alive", where, e)
				return
			}
		}
		if st := w.Stats(); st.Entities.Used != len(model) {
			fail("big.handle", "%s: Stats reports %d entities in use, %d are alive", where, st.Entities.Used, len(model))
			return
		}
		// queries: Count, iteration, EntityAt at and around 65536, Step across it
		for _, withB := range []bool{false, true} {
			var f ecs.Filter
			want := 0
			if withB {
				m := ecs.All(idA, idB)
				f = &m
				for _, me := range model {
					if me.hasB {
						want++
					}
				}
			} else {
				m := ecs.All(idA)
				f = &m
				want = len(model)
			}
			q := w.Query(f)
			if q.Count() != want {
				fail("big.count", "%s: Query(withB=%v).Count() = %d, the model has %d", where, withB, q.Count(), want)
				q.Close()
				return
			}
			order := make([]ecs.Entity, 0, want)
			seen := map[ecs.Entity]bool{}
			for q.Next() {
				e := q.Entity()
				if me, ok := model[e]; !ok || seen[e] || (withB && !me.hasB) {
					fail("big.iteration", "%s: Query(withB=%v) visits %v (known %v, visited before %v)", where, withB, e, ok, seen[e])
					q.Close()
					return
				}
				if (*bigA)(q.Get(idA)).V != model[e].a {
					fail("big.value", "%s: Query.Get(A) for %v differs from the value it was given", where, e)
					q.Close()
					return
				}
				seen[e] = true
				order = append(order, e)
			}
			if len(order) != want {
				fail("big.iteration", "%s: Query(withB=%v) visits %d entities, the model has %d", where, withB, len(order), want)
				return
			}
			probes := []int{0, want - 1, want / 2, R.Intn(max(want, 1))}
			for _, p := range []int{255, 256, 32767, 32768, 65535, 65536, 65537, 131071, 131072} {
				if p < want {
					probes = append(probes, p)
				}
			}
			if want > 0 {
				q2 := w.Query(f)
				for _, p := range probes {
					if got := q2.EntityAt(p); got != order[p] {
						fail("big.entityat", "%s: EntityAt(%d) = %v, iteration visits %v at that position", where, p, got, order[p])
						break
					}
				}
				q2.Close()
				q3 := w.Query(f)
				pos := -1
				for !failed {
					st := 1 + R.Intn(40000)
					if R.Chance(0.3) {
						st = 65536 + R.Intn(100)
					}
					ok := q3.Step(st)
					pos += st
					if pos >= want {
						if ok {
							fail("big.step", "%s: Step to position %d of %d reports an entity", where, pos, want)
							q3.Close()
						}
						break
					}
					if !ok || q3.Entity() != order[pos] {
						fail("big.step", "%s: Step(%d) to position %d lands on %v (ok=%v), iteration visits %v there", where, st, pos, q3.Entity(), ok, order[pos])
						if ok {
							q3.Close()
						}
						break
					}
				}
			}
			c.AddEvaluations(want)
		}
		if w.IsLocked() {
			fail("big.lock", "%s: world locked after the queries", where)
		}
	}
	pickLive := func(k int) []ecs.Entity {
		// PRNG-independent of map order: take from a query's iteration order
		m := ecs.All(idA)
		q := w.Query(&m)
		n := q.Count()
		idx := map[int]bool{}
		for len(idx) < k && len(idx) < n {
			switch R.Intn(3) {
			case 0:
				idx[R.Intn(n)] = true
			case 1:
				idx[n-1-R.Intn(min(n, 50))] = true
			default:
				if n > 65536 {
					idx[65536-25+R.Intn(min(50, n-65536+25))] = true
				} else {
					idx[R.Intn(n)] = true
				}
			}
		}
		out := []ecs.Entity{}
		for i := range idx {
			out = append(out, q.EntityAt(i))
		}
		q.Close()
		sortEnts(out)
		return out
	}
	n := 65536 + 1 + R.Intn(3000)
	if c.Case%4 == 3 {
		n = 131072 + 1 + R.Intn(500)
	}
	create(n, R.Chance(0.3))
	verify("after setup")
	rounds := 3 + R.Intn(3)
	for r := 0; r < rounds && !failed; r++ {
		op := R.Intn(8)
		if c.Prop == "C17" && r%2 == 1 {
			op = 7
		}
		if c.Prop == "C15" && r%2 == 1 {
			op = 8
		}
		switch op {
		case 8: // Reset, then the same creations as on a new world: same handles, zeroed components, same query order
			w.Reset()
			for e := range model {
				delete(model, e)
			}
			dead = dead[:0]
			k := 65536 + 1 + R.Intn(2000)
			fresh := ecs.NewWorld(conf)
			fa := ecs.ComponentID[bigA](&fresh)
			fb := ecs.ComponentID[bigB](&fresh)
			ecs.NewBuilder(&fresh, fa, fb).NewBatch(k)
			ecs.NewBuilder(&w, idA, idB).NewBatch(k)
			m1, m2 := ecs.All(idA, idB), ecs.All(fa, fb)
			q1, q2 := w.Query(&m1), fresh.Query(&m2)
			if q1.Count() != k || q2.Count() != k {
				fail("big.reset", "after Reset a batch of %d entities counts %d (new world: %d)", k, q1.Count(), q2.Count())
			}
			for !failed {
				n1, n2 := q1.Next(), q2.Next()
				if n1 != n2 {
					fail("big.reset", "after Reset the query over %d new entities ends at a different point than on a new world", k)
					if n1 {
						q1.Close()
					}
					if n2 {
						q2.Close()
					}
					break
				}
				if !n1 {
					break
				}
				e := q1.Entity()
				if e != q2.Entity() {
					fail("big.reset", "after Reset creation yields %v where a new world yields %v", e, q2.Entity())
					q1.Close()
					q2.Close()
					break
				}
				pa, pb := (*bigA)(q1.Get(idA)), (*bigB)(q1.Get(idB))
				if pa.V != 0 || pb.V != 0 || pb.W != 0 {
					fail("big.reset", "after Reset a new component of %v starts as %d/%d/%d", e, pa.V, pb.V, pb.W)
					q1.Close()
					q2.Close()
					break
				}
				serial++
				pa.V, pb.V, pb.W = serial, serial*3, ^(serial * 3)
				model[e] = &bigEnt{a: serial, hasB: true, b: serial * 3}
			}
			log = append(log, fmt.Sprintf("Reset, %d creations", k))
		case 7: // the handle state goes through a dump (every second time as JSON) into a new world
			d := w.DumpEntities()
			if R.Chance(0.5) {
				js, err := json.Marshal(&d)
				var d2 ecs.EntityDump
				if err == nil {
					err = json.Unmarshal(js, &d2)
				}
				if err != nil {
					fail("big.dump", "JSON round trip of the dump failed: %v", err)
					break
				}
				d = d2
			}
			w2 := ecs.NewWorld(conf)
			w2.LoadEntities(&d)
			for e := range model {
				if !w2.Alive(e) {
					fail("big.dump", "%v is alive in the dumped world and dead in the loaded one", e)
					break
				}
			}
			for _, e := range dead {
				if w2.Alive(e) {
					fail("big.dump", "%v is dead in the dumped world and alive in the loaded one", e)
					break
				}
			}
			k := 50 + R.Intn(400)
			for i := 0; i < k && !failed; i++ {
				e1, e2 := w.NewEntity(idA), w2.NewEntity()
				serial++
				(*bigA)(w.Get(e1, idA)).V = serial
				model[e1] = &bigEnt{a: serial}
				if e1 != e2 {
					fail("big.dump", "creation %d after the load: the dumped world hands out %v, the loaded one %v", i, e1, e2)
				}
			}
			log = append(log, fmt.Sprintf("dump/load, %d creations", k))
		case 0, 1: // single removals: the last row moves into the hole
			vs := pickLive(50 + R.Intn(300))
			for _, e := range vs {
				w.RemoveEntity(e)
				delete(model, e)
				dead = append(dead, e)
			}
			log = append(log, fmt.Sprintf("remove %d", len(vs)))
		case 2: // single moves to another table and back
			vs := pickLive(50 + R.Intn(200))
			for _, e := range vs {
				me := model[e]
				if me.hasC {
					w.Remove(e, idC)
				} else {
					w.Add(e, idC)
				}
				me.hasC = !me.hasC
			}
			log = append(log, fmt.Sprintf("toggle C on %d", len(vs)))
		case 3: // everything without B gets B, in one batch
			f := ecs.All(idA).Without(idB)
			want := 0
			for _, me := range model {
				if !me.hasB {
					want++
				}
			}
			var got int
			if R.Chance(0.5) {
				got = w.Batch().Add(&f, idB)
			} else {
				q := w.Batch().AddQ(&f, idB)
				got = q.Count()
				for q.Next() {
				}
			}
			if got != want {
				fail("big.batch", "Batch.Add over %d entities reports %d", want, got)
			}
			for e, me := range model {
				if !me.hasB {
					me.hasB = true
					serial++
					me.b = serial
					pb := (*bigB)(w.Get(e, idB))
					if pb.V != 0 || pb.W != 0 {
						fail("big.zero", "component B added to %v in a batch starts as %d/%d", e, pb.V, pb.W)
						break
					}
					pb.V, pb.W = me.b, ^me.b
				}
			}
			log = append(log, fmt.Sprintf("batch add B to %d", want))
		case 4: // B removed from everything, in one batch
			f := ecs.All(idA, idB)
			want := 0
			for _, me := range model {
				if me.hasB {
					want++
					me.hasB = false
				}
			}
			if got := w.Batch().Remove(&f, idB); got != want {
				fail("big.batch", "Batch.Remove over %d entities reports %d", want, got)
			}
			log = append(log, fmt.Sprintf("batch remove B from %d", want))
		case 5: // grow again
			create(100+R.Intn(3000), R.Chance(0.5))
		default: // one whole table goes
			f := ecs.All(idA, idC)
			want := 0
			for e, me := range model {
				if me.hasC {
					want++
					delete(model, e)
					dead = append(dead, e)
				}
			}
			if got := w.Batch().RemoveEntities(&f); got != want {
				fail("big.batch", "Batch.RemoveEntities over %d entities reports %d", want, got)
			}
			log = append(log, fmt.Sprintf("batch remove %d entities", want))
		}
		verify(fmt.Sprintf("round %d", r))
	}
	if HooksOn && !failed {
		if err := hookInv(&w); err != nil {
			fail("inv", "%v", err)
		}
	}
	c.Cov.N["big_entities"] += n
	c.Cov.N["big_rounds"] += rounds
	c.Sample(map[string]any{"mode": "big", "case": c.Case, "log": log})
	if !failed {
		c.NonTrivial(HashStr(fmt.Sprint(log)))
	}
}
