package h

import (
	"fmt"
	"reflect"
	"strconv"
	"sync"
	"unsafe"

	"github.com/mlange-42/arche/ecs"
)

// Static component types (usable through the generic API).
// None of them has padding bytes, so raw byte comparison is meaningful.

type RelA struct{ ecs.Relation }
type RelB struct {
	ecs.Relation
	V uint64
}
type RelC struct {
	ecs.Relation
	A, B uint32
}

type G0 struct{ X, Y uint64 }
type G1 struct{ V uint32 }
type G2 struct{ V [3]uint8 }
type G3 struct{}
type G4 struct{ A, B, C uint16 }
type G5 struct{ V [5]uint64 }
type G6 struct{ V uint8 }
type G7 struct{ V [17]uint64 }
type G8 uint16
type G9 [3]float32
type G10 struct{ A, B uint64 }
type G11 struct{ V [3]uint32 }

// Look-alikes for the relation flag (C16).
type NotRelSecond struct {
	V uint32
	ecs.Relation
}
type NotRelNested struct{ In RelA }
type NotRelPtr struct{ *ecs.Relation }
type NotRelNone struct{ V uint64 }
type relAlias = ecs.Relation

// relLink embeds the marker itself (it IS a relation type); types that merely embed relLink are not.
type relLink struct{ ecs.Relation }

// NotRelPromoted embeds, as second field, a struct that embeds ecs.Relation (the marker is only promoted).
type NotRelPromoted struct {
	Length float64
	relLink
}

// NotRelAfterEmpty embeds ecs.Relation after a zero-sized field (offset 0, but not the first field).
type NotRelAfterEmpty struct {
	Tag struct{}
	ecs.Relation
	V int32
}

// NotRelInnerFirst has as first field an embedded struct whose first field is ecs.Relation.
type NotRelInnerFirst struct {
	relLink
	V int32
}

// NotRelNamed has a first field of another type that is merely called Relation.
type NotRelNamed struct {
	Relation uint32
}

var staticTypes = map[string]reflect.Type{
	"R0":  reflect.TypeOf(RelA{}),
	"R1":  reflect.TypeOf(RelB{}),
	"R2":  reflect.TypeOf(RelC{}),
	"S0":  reflect.TypeOf(G0{}),
	"S1":  reflect.TypeOf(G1{}),
	"S2":  reflect.TypeOf(G2{}),
	"S3":  reflect.TypeOf(G3{}),
	"S4":  reflect.TypeOf(G4{}),
	"S5":  reflect.TypeOf(G5{}),
	"S6":  reflect.TypeOf(G6{}),
	"S7":  reflect.TypeOf(G7{}),
	"S8":  reflect.TypeOf(G8(0)),
	"S9":  reflect.TypeOf(G9{}),
	"S10": reflect.TypeOf(G10{}),
	"S11": reflect.TypeOf(G11{}),
	// look-alikes that must not count as relations
	"N0": reflect.TypeOf(NotRelSecond{}),
	"N1": reflect.TypeOf(NotRelNested{}),
	"N2": reflect.TypeOf(NotRelPtr{}),
	"N3": reflect.TypeOf(NotRelNone{}),
	"N4": reflect.TypeOf(ecs.Relation{}),
	"N5": reflect.TypeOf(NotRelNamed{}),
	"N6": reflect.TypeOf(NotRelPromoted{}),
	"N7": reflect.TypeOf(NotRelAfterEmpty{}),
	"N8": reflect.TypeOf(NotRelInnerFirst{}),
	// resource types that are not structs: pointers to types that are resource types themselves, and other kinds
	"Q0": reflect.TypeOf((*G0)(nil)),
	"Q1": reflect.TypeOf((*G1)(nil)),
	"Q2": reflect.TypeOf((**G0)(nil)),
	"Q3": reflect.TypeOf(int(0)),
	"Q4": reflect.TypeOf([]G0(nil)),
	"Q5": reflect.TypeOf(map[string]int(nil)),
	"Q6": reflect.TypeOf((*fmt.Stringer)(nil)).Elem(),
}

var fillerElems = []reflect.Type{
	reflect.TypeOf([0]byte{}),
	reflect.TypeOf(uint8(0)),
	reflect.TypeOf(uint16(0)),
	reflect.TypeOf([3]byte{}),
	reflect.TypeOf(uint32(0)),
	reflect.TypeOf(uint64(0)),
	reflect.TypeOf([3]uint32{}),
	reflect.TypeOf([2]uint64{}),
	reflect.TypeOf([3]uint64{}),
	reflect.TypeOf([5]uint64{}),
}

var (
	fillerMu    sync.Mutex
	fillerCache = map[string]reflect.Type{}
)

// TypeOfKey returns the component type for a catalogue key:
// R0..R2 relation types, S0..S11 static value types, F<n> dynamic filler types,
// X<n> dynamic relation types (ecs.Relation embedded first).
func TypeOfKey(key string) reflect.Type {
	if t, ok := staticTypes[key]; ok {
		return t
	}
	fillerMu.Lock()
	defer fillerMu.Unlock()
	if t, ok := fillerCache[key]; ok {
		return t
	}
	if len(key) < 2 {
		panic("bad type key " + key)
	}
	n, err := strconv.Atoi(key[1:])
	if err != nil {
		panic("bad type key " + key)
	}
	var t reflect.Type
	switch key[0] {
	case 'F':
		t = reflect.StructOf([]reflect.StructField{
			{Name: fmt.Sprintf("F%d", n), Type: fillerElems[n%len(fillerElems)]},
		})
	case 'X':
		t = reflect.StructOf([]reflect.StructField{
			{Name: "Relation", Type: reflect.TypeOf(ecs.Relation{}), Anonymous: true},
			{Name: fmt.Sprintf("X%d", n), Type: fillerElems[n%len(fillerElems)]},
		})
	case 'B': // a large value type: more than one memory page per component
		t = reflect.StructOf([]reflect.StructField{
			{Name: fmt.Sprintf("B%d", n), Type: reflect.ArrayOf(513+n%7, reflect.TypeOf(uint64(0)))},
		})
	default:
		panic("bad type key " + key)
	}
	fillerCache[key] = t
	return t
}

// KeyIsRel reports whether a catalogue key denotes a relation type.
func KeyIsRel(key string) bool { return key[0] == 'R' || key[0] == 'X' }

// TypeInfo describes a registered component type.
type TypeInfo struct {
	Key  string
	Type reflect.Type
	Size int
	Rel  bool
}

func infoOf(key string) TypeInfo {
	t := TypeOfKey(key)
	return TypeInfo{Key: key, Type: t, Size: int(t.Size()), Rel: KeyIsRel(key)}
}

// ptrArena is what the values of pointer-typed components point into: package-level memory, so that the values
// are valid pointers for the collector and can be written as plain bytes (nothing ever dereferences them).
var ptrArena [64][8]uint64

// Pat returns the byte pattern of write number k for a component of this type: pseudo-random bytes for
// pointer-free types, the address of one of 64 arena cells for pointer types.
func (t TypeInfo) Pat(k int) []byte {
	if t.Type != nil && t.Type.Kind() == reflect.Pointer {
		b := make([]byte, t.Size)
		a := uint64(uintptr(unsafe.Pointer(&ptrArena[(uint(k)*2654435761)%64])))
		for i := 0; i < 8 && i < len(b); i++ {
			b[i] = byte(a >> (8 * i))
		}
		return b
	}
	return Pattern(k, t.Size)
}

// Pattern returns the unique byte pattern of write number k for a component of n bytes.
// It is never all-zero for n > 0.
func Pattern(k int, n int) []byte {
	b := make([]byte, n)
	x := uint64(k)*0x9E3779B97F4A7C15 + 0x1234567
	for i := range b {
		x ^= x >> 29
		x *= 0xBF58476D1CE4E5B9
		x ^= x >> 32
		b[i] = byte(x >> 17)
	}
	if n > 0 {
		b[0] |= 1
	}
	return b
}

func maskBits() int { return ecs.MaskTotalBits }
