package h

import (
	"fmt"
	"reflect"
	"sort"
	"strings"

	"github.com/mlange-42/arche/ecs"
)

// FaultRow is one row of the illegal-call table: an illegal-argument class applied to one operation.
type FaultRow struct {
	Name   string
	Atomic bool // single-entity operation: nothing may change
	Gen    func(g *Gen) *Op
}

func (g *Gen) deadHandles() (stale, recycled []ecs.Entity) {
	m := g.S.M
	aliveID := map[uint32]bool{}
	for e := range m.Alive {
		aliveID[e.ID()] = true
	}
	for h := range m.Ledger {
		if _, ok := m.Alive[h]; ok {
			continue
		}
		if aliveID[h.ID()] {
			recycled = append(recycled, h)
		} else {
			stale = append(stale, h)
		}
	}
	sortEnts(stale)
	sortEnts(recycled)
	return
}

func (g *Gen) dead() (ecs.Entity, bool) {
	st, rc := g.deadHandles()
	if len(rc) > 0 && (len(st) == 0 || g.R.Chance(0.5)) {
		return Pick(g.R, rc), true
	}
	if len(st) > 0 {
		return Pick(g.R, st), true
	}
	return ecs.Entity{}, false
}

func (g *Gen) anyUsed() int { return Pick(g.R, g.used()) }

func (g *Gen) nonRels() []int { return minus(g.used(), g.isRel) }

// aliveWhere picks an alive entity satisfying a predicate.
func (g *Gen) aliveWhere(pred func(e ecs.Entity, me *MEnt) bool) (ecs.Entity, *MEnt, bool) {
	c := []ecs.Entity{}
	for _, e := range g.alive() {
		if pred(e, g.S.M.Alive[e]) {
			c = append(c, e)
		}
	}
	if len(c) == 0 {
		return ecs.Entity{}, nil, false
	}
	e := Pick(g.R, c)
	return e, g.S.M.Alive[e], true
}

func absentIn(g *Gen, me *MEnt, pool []int) []int {
	return minus(pool, func(x int) bool { _, h := me.Comps[x]; return h })
}

func presentIn(me *MEnt, pool []int) []int {
	return minus(pool, func(x int) bool { _, h := me.Comps[x]; return !h })
}

// FaultTable lists every illegal-argument class of every operation it applies to.
func FaultTable() []FaultRow {
	rows := []FaultRow{}
	add := func(name string, atomic bool, gen func(g *Gen) *Op) {
		rows = append(rows, FaultRow{Name: name, Atomic: atomic, Gen: gen})
	}
	// ---- dead / recycled entity
	deadOp := func(k string, fill func(g *Gen, op *Op) bool) func(g *Gen) *Op {
		return func(g *Gen) *Op {
			d, ok := g.dead()
			if !ok {
				return nil
			}
			op := &Op{K: k, E: entP(d)}
			if fill != nil && !fill(g, op) {
				return nil
			}
			return op
		}
	}
	oneAdd := func(g *Gen, op *Op) bool { op.Add = []int{g.anyUsed()}; return true }
	add("dead.RemoveEntity", true, deadOp("RemoveEntity", nil))
	add("dead.Add", true, deadOp("Add", oneAdd))
	add("dead.Remove", true, deadOp("Remove", func(g *Gen, op *Op) bool { op.Rem = []int{g.anyUsed()}; return true }))
	add("dead.Exchange", true, deadOp("Exchange", func(g *Gen, op *Op) bool { op.Add = []int{g.anyUsed()}; return true }))
	add("dead.Assign", true, deadOp("Assign", func(g *Gen, op *Op) bool { op.Add = []int{g.anyUsed()}; op.Vals = g.vals(1); return true }))
	add("dead.Set", true, deadOp("Set", func(g *Gen, op *Op) bool { op.ID = g.anyUsed(); op.Val = g.val(); return true }))
	add("dead.Get", true, deadOp("Get", func(g *Gen, op *Op) bool { op.ID = g.anyUsed(); return true }))
	add("dead.Has", true, deadOp("Has", func(g *Gen, op *Op) bool { op.ID = g.anyUsed(); return true }))
	// (a call that names no component at all is still a call on a dead entity)
	add("dead.Add.empty", true, deadOp("Add", nil))
	add("dead.Remove.empty", true, deadOp("Remove", nil))
	add("dead.Exchange.empty", true, deadOp("Exchange", nil))
	add("dead.BuilderAdd.empty", true, deadOp("BuilderAdd", nil))
	add("dead.Mask", true, deadOp("MaskOf", nil))
	add("dead.Ids", true, deadOp("MaskOf", func(g *Gen, op *Op) bool { op.Alt = true; return true }))
	relFill := func(g *Gen, op *Op) bool {
		r := g.relsUsed()
		if len(r) == 0 {
			return false
		}
		op.Rel = ip(Pick(g.R, r))
		op.T = entP(ecs.Entity{})
		return true
	}
	add("dead.RelGet", true, deadOp("RelGet", relFill))
	add("dead.RelSet", true, deadOp("RelSet", relFill))
	add("dead.RelExchange", true, deadOp("RelExchange", func(g *Gen, op *Op) bool {
		if !relFill(g, op) {
			return false
		}
		op.Add = []int{*op.Rel}
		return true
	}))
	add("dead.BuilderAdd", true, deadOp("BuilderAdd", oneAdd))
	// the unchecked accessors are documented to panic for a removed entity whose id was not recycled yet
	staleOp := func(k string, fill func(g *Gen, op *Op) bool) func(g *Gen) *Op {
		return func(g *Gen) *Op {
			st, _ := g.deadHandles()
			if len(st) == 0 {
				return nil
			}
			op := &Op{K: k, E: entP(Pick(g.R, st)), Alt: true}
			if !fill(g, op) {
				return nil
			}
			return op
		}
	}
	add("removed.GetUnchecked", true, staleOp("Get", func(g *Gen, op *Op) bool { op.ID = g.anyUsed(); return true }))
	add("removed.HasUnchecked", true, staleOp("Has", func(g *Gen, op *Op) bool { op.ID = g.anyUsed(); return true }))
	add("removed.RelGetUnchecked", true, staleOp("RelGet", relFill))

	// ---- present / absent component
	withPresentNonEmpty := func(g *Gen) (ecs.Entity, *MEnt, bool) {
		return g.aliveWhere(func(e ecs.Entity, me *MEnt) bool { return len(presentIn(me, g.used())) > 0 })
	}
	add("present.Add", true, func(g *Gen) *Op {
		e, me, ok := withPresentNonEmpty(g)
		if !ok {
			return nil
		}
		add := []int{Pick(g.R, presentIn(me, g.used()))}
		if ab := absentIn(g, me, g.nonRels()); len(ab) > 0 && g.R.Chance(0.5) {
			add = append([]int{Pick(g.R, ab)}, add...)
		}
		return &Op{K: "Add", E: entP(e), Add: add}
	})
	add("present.Assign", true, func(g *Gen) *Op {
		e, me, ok := withPresentNonEmpty(g)
		if !ok {
			return nil
		}
		return &Op{K: "Assign", E: entP(e), Add: []int{Pick(g.R, presentIn(me, g.used()))}, Vals: g.vals(1)}
	})
	add("present.BuilderAdd", true, func(g *Gen) *Op {
		e, me, ok := withPresentNonEmpty(g)
		if !ok {
			return nil
		}
		op := &Op{K: "BuilderAdd", E: entP(e), Add: []int{Pick(g.R, presentIn(me, g.used()))}}
		if g.R.Chance(0.5) {
			op.Vals = g.vals(1)
		}
		return op
	})
	// ---- a target handed to a Builder that was not told which component is its relation
	norel := func(g *Gen) *Op {
		ids := g.subsetAny(g.nonRels(), 1+g.R.Intn(3))
		if rs := g.relsUsed(); len(rs) > 0 && g.R.Chance(0.5) {
			ids = uniq(append(ids, Pick(g.R, rs)))
		}
		if len(ids) == 0 {
			return nil
		}
		op := &Op{Add: ids, T: entP(g.pickTarget(ecs.Entity{}))}
		if g.R.Chance(0.4) {
			op.Vals = g.vals(len(ids))
		}
		return op
	}
	add("norel.BuilderNew", true, func(g *Gen) *Op {
		op := norel(g)
		if op != nil {
			op.K = "BuilderNew"
		}
		return op
	})
	add("norel.NewBatch", true, func(g *Gen) *Op {
		op := norel(g)
		if op != nil {
			op.K, op.N, op.Q = "NewBatch", 1+g.R.Intn(5), g.R.Chance(0.5)
		}
		return op
	})
	add("norel.BuilderAdd", true, func(g *Gen) *Op {
		e, ok := g.pickAlive()
		if !ok {
			return nil
		}
		ab := absentIn(g, g.S.M.Alive[e], g.nonRels())
		if len(ab) == 0 {
			return nil
		}
		op := &Op{K: "BuilderAdd", E: entP(e), Add: []int{Pick(g.R, ab)}, T: entP(g.pickTarget(e))}
		if g.R.Chance(0.4) {
			op.Vals = g.vals(1)
		}
		return op
	})
	add("present.Exchange", true, func(g *Gen) *Op {
		e, me, ok := withPresentNonEmpty(g)
		if !ok {
			return nil
		}
		pr := presentIn(me, g.used())
		op := &Op{K: "Exchange", E: entP(e), Add: []int{Pick(g.R, pr)}}
		if len(pr) > 1 {
			for _, x := range pr {
				if x != op.Add[0] {
					op.Rem = []int{x}
					break
				}
			}
		}
		return op
	})
	withAbsent := func(g *Gen) (ecs.Entity, *MEnt, bool) {
		return g.aliveWhere(func(e ecs.Entity, me *MEnt) bool { return len(absentIn(g, me, g.used())) > 0 })
	}
	add("absent.Remove", true, func(g *Gen) *Op {
		e, me, ok := withAbsent(g)
		if !ok {
			return nil
		}
		rem := []int{Pick(g.R, absentIn(g, me, g.used()))}
		if pr := presentIn(me, g.used()); len(pr) > 0 && g.R.Chance(0.5) {
			rem = append([]int{Pick(g.R, pr)}, rem...)
		}
		return &Op{K: "Remove", E: entP(e), Rem: rem}
	})
	add("absent.Exchange", true, func(g *Gen) *Op {
		e, me, ok := withAbsent(g)
		if !ok {
			return nil
		}
		ab := absentIn(g, me, g.nonRels())
		if len(ab) < 2 {
			return nil
		}
		return &Op{K: "Exchange", E: entP(e), Add: []int{ab[0]}, Rem: []int{ab[1]}}
	})
	add("absent.Set", true, func(g *Gen) *Op {
		e, me, ok := withAbsent(g)
		if !ok {
			return nil
		}
		return &Op{K: "Set", E: entP(e), ID: Pick(g.R, absentIn(g, me, g.used())), Val: g.val()}
	})

	// ---- duplicate IDs in one call
	add("dup.NewEntity", true, func(g *Gen) *Op { a := g.anyUsed(); return &Op{K: "NewEntity", Add: []int{a, a}} })
	add("dup.NewEntityWith", true, func(g *Gen) *Op { a := g.anyUsed(); return &Op{K: "NewEntityWith", Add: []int{a, a}, Vals: g.vals(2)} })
	add("dup.BuilderNew", true, func(g *Gen) *Op {
		a := Pick(g.R, g.nonRels())
		return &Op{K: "BuilderNew", Add: []int{a, g.anyUsedNot(a), a}}
	})
	add("dup.NewBatch", false, func(g *Gen) *Op {
		a := g.anyUsed()
		return &Op{K: "NewBatch", Add: []int{a, a}, N: 1 + g.R.Intn(5), Q: g.R.Chance(0.5)}
	})
	add("dup.Add", true, func(g *Gen) *Op {
		e, me, ok := withAbsent(g)
		if !ok {
			return nil
		}
		ab := absentIn(g, me, g.nonRels())
		if len(ab) == 0 {
			return nil
		}
		a := Pick(g.R, ab)
		return &Op{K: "Add", E: entP(e), Add: []int{a, a}}
	})
	add("dup.Remove", true, func(g *Gen) *Op {
		e, me, ok := withPresentNonEmpty(g)
		if !ok {
			return nil
		}
		a := Pick(g.R, presentIn(me, g.used()))
		return &Op{K: "Remove", E: entP(e), Rem: []int{a, a}}
	})
	add("dup.Exchange.addrem", true, func(g *Gen) *Op {
		e, me, ok := withPresentNonEmpty(g)
		if !ok {
			return nil
		}
		a := Pick(g.R, presentIn(me, g.used()))
		op := &Op{K: "Exchange", E: entP(e), Add: []int{a}, Rem: []int{a}}
		// the offending ID may be accompanied by otherwise legal additions and removals, in any position
		if ab := absentIn(g, me, g.nonRels()); len(ab) > 0 && g.R.Chance(0.6) {
			b := Pick(g.R, ab)
			if g.R.Chance(0.5) {
				op.Add = []int{b, a}
			} else {
				op.Add = []int{a, b}
			}
		}
		if pr := minus(presentIn(me, g.nonRels()), func(x int) bool { return x == a }); len(pr) > 0 && g.R.Chance(0.5) {
			c := Pick(g.R, pr)
			if g.R.Chance(0.5) {
				op.Rem = []int{a, c}
			} else {
				op.Rem = []int{c, a}
			}
		}
		return op
	})

	// ---- second relation component
	twoRels := func(g *Gen) (int, int, bool) {
		r := g.relsUsed()
		if len(r) < 2 {
			return 0, 0, false
		}
		r = append([]int{}, r...)
		Shuffle(g.R, r)
		return r[0], r[1], true
	}
	add("tworel.NewEntity", true, func(g *Gen) *Op {
		a, b, ok := twoRels(g)
		if !ok {
			return nil
		}
		return &Op{K: "NewEntity", Add: []int{a, b}}
	})
	add("tworel.BuilderNew", true, func(g *Gen) *Op {
		a, b, ok := twoRels(g)
		if !ok {
			return nil
		}
		return &Op{K: "BuilderNew", Add: []int{a, b}, Rel: ip(a), T: entP(ecs.Entity{})}
	})
	hasRel := func(g *Gen) (ecs.Entity, *MEnt, bool) {
		return g.aliveWhere(func(e ecs.Entity, me *MEnt) bool { return g.S.M.RelOf(me) >= 0 })
	}
	otherRel := func(g *Gen, me *MEnt) (int, bool) {
		for _, r := range g.relsUsed() {
			if r != g.S.M.RelOf(me) {
				return r, true
			}
		}
		return 0, false
	}
	add("tworel.Add", true, func(g *Gen) *Op {
		e, me, ok := hasRel(g)
		if !ok {
			return nil
		}
		r, ok := otherRel(g, me)
		if !ok {
			return nil
		}
		return &Op{K: "Add", E: entP(e), Add: []int{r}}
	})
	add("tworel.Assign", true, func(g *Gen) *Op {
		e, me, ok := hasRel(g)
		if !ok {
			return nil
		}
		r, ok := otherRel(g, me)
		if !ok {
			return nil
		}
		return &Op{K: "Assign", E: entP(e), Add: []int{r}, Vals: g.vals(1)}
	})
	add("tworel.Exchange", true, func(g *Gen) *Op {
		e, me, ok := hasRel(g)
		if !ok {
			return nil
		}
		r, ok := otherRel(g, me)
		if !ok {
			return nil
		}
		op := &Op{K: "Exchange", E: entP(e), Add: []int{r}}
		if pr := minus(presentIn(me, g.used()), g.isRel); len(pr) > 0 {
			op.Rem = []int{pr[0]}
		}
		return op
	})
	add("tworel.RelExchange", true, func(g *Gen) *Op {
		e, me, ok := hasRel(g)
		if !ok {
			return nil
		}
		r, ok := otherRel(g, me)
		if !ok {
			return nil
		}
		return &Op{K: "RelExchange", E: entP(e), Add: []int{r}, Rel: ip(r), T: entP(ecs.Entity{})}
	})

	// ---- relation calls on a missing or non-relation component
	noRel := func(g *Gen) (ecs.Entity, *MEnt, bool) {
		return g.aliveWhere(func(e ecs.Entity, me *MEnt) bool { return g.S.M.RelOf(me) < 0 })
	}
	for _, k := range []string{"RelGet", "RelSet", "QueryRelation"} {
		k := k
		mk := func(e ecs.Entity, comp int) *Op {
			op := &Op{K: k, E: entP(e), Rel: ip(comp), T: entP(ecs.Entity{}), ID: comp}
			return op
		}
		add("rel.missing."+k, true, func(g *Gen) *Op {
			e, me, ok := g.aliveWhere(func(e ecs.Entity, me *MEnt) bool { return true })
			if !ok {
				return nil
			}
			rs := minus(g.relsUsed(), func(x int) bool { return x == g.S.M.RelOf(me) })
			if len(rs) == 0 {
				return nil
			}
			return mk(e, Pick(g.R, rs))
		})
		add("rel.nonrel."+k, true, func(g *Gen) *Op {
			e, me, ok := g.aliveWhere(func(e ecs.Entity, me *MEnt) bool { return len(minus(presentIn(me, g.used()), g.isRel)) > 0 })
			if !ok {
				return nil
			}
			return mk(e, Pick(g.R, minus(presentIn(me, g.used()), g.isRel)))
		})
		add("rel.id0."+k, true, func(g *Gen) *Op {
			// component ID 0 on an entity without any relation component (present or absent, relation type or not)
			e, _, ok := noRel(g)
			if !ok {
				return nil
			}
			return mk(e, 0)
		})
		add("rel.absentnonrel."+k, true, func(g *Gen) *Op {
			e, me, ok := noRel(g)
			if !ok {
				return nil
			}
			ab := absentIn(g, me, g.nonRels())
			if len(ab) == 0 {
				return nil
			}
			return mk(e, Pick(g.R, ab))
		})
	}
	add("rel.nonrel.BuilderNew", true, func(g *Gen) *Op {
		c := Pick(g.R, g.nonRels())
		return &Op{K: "BuilderNew", Add: uniq([]int{c, g.anyUsedNot(c)}), Rel: ip(c), T: entP(g.pickTarget(ecs.Entity{}))}
	})
	add("rel.id0.BuilderNew", true, func(g *Gen) *Op {
		// WithRelation(0) on a component set without any relation component
		ids := g.subsetAny(g.nonRels(), 3)
		op := &Op{K: "BuilderNew", Add: ids, Rel: ip(0), T: entP(g.pickTarget(ecs.Entity{}))}
		if g.R.Chance(0.5) {
			op.Vals = g.vals(len(ids))
		}
		return op
	})
	add("rel.missing.BuilderNew", true, func(g *Gen) *Op {
		rs := g.relsUsed()
		if len(rs) == 0 {
			return nil
		}
		ids := g.subsetAny(g.nonRels(), 3)
		return &Op{K: "BuilderNew", Add: ids, Rel: ip(Pick(g.R, rs)), T: entP(g.pickTarget(ecs.Entity{}))}
	})
	add("rel.nonrel.NewBatch", false, func(g *Gen) *Op {
		c := Pick(g.R, g.nonRels())
		return &Op{K: "NewBatch", Add: []int{c}, Rel: ip(c), T: entP(ecs.Entity{}), N: 1 + g.R.Intn(4), Q: g.R.Chance(0.5)}
	})
	add("rel.nonrel.BuilderAdd", true, func(g *Gen) *Op {
		e, me, ok := noRel(g)
		if !ok {
			return nil
		}
		ab := absentIn(g, me, g.nonRels())
		if len(ab) == 0 {
			return nil
		}
		c := Pick(g.R, ab)
		return &Op{K: "BuilderAdd", E: entP(e), Add: []int{c}, Rel: ip(c), T: entP(ecs.Entity{})}
	})
	add("rel.missing.RelExchange", true, func(g *Gen) *Op {
		e, me, ok := noRel(g)
		if !ok {
			return nil
		}
		ab := absentIn(g, me, g.nonRels())
		rs := g.relsUsed()
		if len(ab) == 0 || len(rs) == 0 {
			return nil
		}
		return &Op{K: "RelExchange", E: entP(e), Add: []int{Pick(g.R, ab)}, Rel: ip(Pick(g.R, rs)), T: entP(ecs.Entity{})}
	})
	add("rel.nonrel.RelExchange", true, func(g *Gen) *Op {
		e, me, ok := noRel(g)
		if !ok {
			return nil
		}
		ab := absentIn(g, me, g.nonRels())
		if len(ab) == 0 {
			return nil
		}
		c := Pick(g.R, ab)
		return &Op{K: "RelExchange", E: entP(e), Add: []int{c}, Rel: ip(c), T: entP(ecs.Entity{})}
	})
	add("rel.noeffect.RelExchange", true, func(g *Gen) *Op {
		e, me, ok := hasRel(g)
		if !ok {
			return nil
		}
		return &Op{K: "RelExchange", E: entP(e), Rel: ip(g.S.M.RelOf(me)), T: entP(ecs.Entity{})}
	})
	add("rel.nonrel.BatchSetRel", false, func(g *Gen) *Op {
		c := Pick(g.R, g.nonRels())
		f := &FSpec{K: "all", IDs: []int{c}}
		if len(g.S.M.Matching(f)) == 0 {
			return nil
		}
		return &Op{K: "BatchSetRel", F: f, Rel: ip(c), T: entP(ecs.Entity{}), Q: g.R.Chance(0.5), Alt: g.R.Chance(0.5)}
	})
	add("rel.nonrel.RelExchangeBatch", false, func(g *Gen) *Op {
		e, me, ok := noRel(g)
		if !ok {
			return nil
		}
		_ = e
		ids := me.IDs()
		f := &FSpec{K: "excl", IDs: ids}
		ab := absentIn(g, me, g.nonRels())
		if len(ab) == 0 {
			return nil
		}
		c := Pick(g.R, ab)
		return &Op{K: "RelExchangeBatch", F: f, Add: []int{c}, Rel: ip(c), T: entP(ecs.Entity{}), Q: g.R.Chance(0.5)}
	})

	add("rel.missing.RelExchangeBatch", false, func(g *Gen) *Op {
		_, me, ok := noRel(g)
		if !ok {
			return nil
		}
		ab := absentIn(g, me, g.nonRels())
		rs := g.relsUsed()
		if len(ab) == 0 || len(rs) == 0 {
			return nil
		}
		return &Op{K: "RelExchangeBatch", F: &FSpec{K: "excl", IDs: me.IDs()}, Add: []int{Pick(g.R, ab)}, Rel: ip(Pick(g.R, rs)), T: entP(ecs.Entity{}), Q: g.R.Chance(0.5)}
	})
	add("rel.noeffect.RelExchangeBatch", true, func(g *Gen) *Op {
		rs := g.relsUsed()
		if len(rs) == 0 {
			return nil
		}
		r := Pick(g.R, rs)
		return &Op{K: "RelExchangeBatch", F: &FSpec{K: "all", IDs: []int{r}}, Rel: ip(r), T: entP(g.pickTarget(ecs.Entity{})), Q: g.R.Chance(0.5)}
	})

	// ---- dead relation target, through every target-taking entry point
	deadT := func(g *Gen) (*Ent, bool) {
		d, ok := g.dead()
		if !ok {
			return nil, false
		}
		return entP(d), true
	}
	relOrNil := func(g *Gen) (int, bool) {
		r := g.relsUsed()
		if len(r) == 0 {
			return 0, false
		}
		return Pick(g.R, r), true
	}
	for _, vals := range []bool{false, true} {
		vals := vals
		sfx := map[bool]string{false: ".ids", true: ".vals"}[vals]
		add("target.dead.BuilderNew"+sfx, true, func(g *Gen) *Op {
			t, ok := deadT(g)
			r, ok2 := relOrNil(g)
			if !ok || !ok2 {
				return nil
			}
			ids := append(g.subsetAny(g.nonRels(), 2), r)
			op := &Op{K: "BuilderNew", Add: ids, Rel: ip(r), T: t}
			if vals {
				op.Vals = g.vals(len(ids))
			}
			return op
		})
		add("target.dead.NewBatch"+sfx, false, func(g *Gen) *Op {
			t, ok := deadT(g)
			r, ok2 := relOrNil(g)
			if !ok || !ok2 {
				return nil
			}
			ids := append(g.subsetAny(g.nonRels(), 2), r)
			op := &Op{K: "NewBatch", Add: ids, Rel: ip(r), T: t, N: 1 + g.R.Intn(5), Q: g.R.Chance(0.5)}
			if vals {
				op.Vals = g.vals(len(ids))
			}
			return op
		})
		add("target.dead.BuilderAdd"+sfx, true, func(g *Gen) *Op {
			t, ok := deadT(g)
			r, ok2 := relOrNil(g)
			e, _, ok3 := noRel(g)
			if !ok || !ok2 || !ok3 {
				return nil
			}
			op := &Op{K: "BuilderAdd", E: entP(e), Add: []int{r}, Rel: ip(r), T: t}
			if vals {
				op.Vals = g.vals(1)
			}
			return op
		})
	}
	add("target.dead.BuilderAdd.kept", true, func(g *Gen) *Op {
		t, ok := deadT(g)
		e, me, ok2 := hasRel(g)
		if !ok || !ok2 {
			return nil
		}
		ab := absentIn(g, me, g.nonRels())
		if len(ab) == 0 {
			return nil
		}
		return &Op{K: "BuilderAdd", E: entP(e), Add: []int{Pick(g.R, ab)}, Rel: ip(g.S.M.RelOf(me)), T: t}
	})
	add("target.dead.RelSet", true, func(g *Gen) *Op {
		t, ok := deadT(g)
		e, me, ok2 := hasRel(g)
		if !ok || !ok2 {
			return nil
		}
		return &Op{K: "RelSet", E: entP(e), Rel: ip(g.S.M.RelOf(me)), T: t}
	})
	add("target.dead.RelExchange.add", true, func(g *Gen) *Op {
		t, ok := deadT(g)
		r, ok2 := relOrNil(g)
		e, _, ok3 := noRel(g)
		if !ok || !ok2 || !ok3 {
			return nil
		}
		return &Op{K: "RelExchange", E: entP(e), Add: []int{r}, Rel: ip(r), T: t}
	})
	add("target.dead.RelExchange.kept", true, func(g *Gen) *Op {
		t, ok := deadT(g)
		e, me, ok2 := hasRel(g)
		if !ok || !ok2 {
			return nil
		}
		ab := absentIn(g, me, g.nonRels())
		if len(ab) == 0 {
			return nil
		}
		return &Op{K: "RelExchange", E: entP(e), Add: []int{Pick(g.R, ab)}, Rel: ip(g.S.M.RelOf(me)), T: t}
	})
	for _, q := range []bool{false, true} {
		for _, alt := range []bool{false, true} {
			q, alt := q, alt
			add(fmt.Sprintf("target.dead.BatchSetRel.q%v.alt%v", q, alt), false, func(g *Gen) *Op {
				t, ok := deadT(g)
				r, ok2 := relOrNil(g)
				if !ok || !ok2 {
					return nil
				}
				return &Op{K: "BatchSetRel", F: &FSpec{K: "all", IDs: []int{r}}, Rel: ip(r), T: t, Q: q, Alt: alt}
			})
		}
		add(fmt.Sprintf("target.dead.RelExchangeBatch.q%v", q), false, func(g *Gen) *Op {
			t, ok := deadT(g)
			r, ok2 := relOrNil(g)
			if !ok || !ok2 {
				return nil
			}
			// entities without relation and without r: add r with a dead target
			_, me, ok3 := noRel(g)
			if !ok3 {
				return nil
			}
			return &Op{K: "RelExchangeBatch", F: &FSpec{K: "excl", IDs: me.IDs()}, Add: []int{r}, Rel: ip(r), T: t, Q: q}
		})
	}

	// ---- non-positive batch counts
	for _, n := range []int{0, -1} {
		for _, q := range []bool{false, true} {
			n, q := n, q
			add(fmt.Sprintf("count.NewBatch.n%d.q%v", n, q), false, func(g *Gen) *Op {
				ids := g.subset(g.used(), 3, true)
				op := &Op{K: "NewBatch", Add: ids, N: n, Q: q}
				if g.R.Chance(0.5) {
					op.Vals = g.vals(len(ids))
				}
				return op
			})
		}
	}

	// ---- out-of-range query indices (plain and cached queries; batch-result queries are probed in-line)
	for _, k := range []string{"EntityAt.-1", "EntityAt.count", "Step.0", "Step.-1"} {
		k := k
		for _, cached := range []bool{false, true} {
			cached := cached
			add("query.index."+k+map[bool]string{false: ".plain", true: ".cached"}[cached], true, func(g *Gen) *Op {
				op := &Op{K: strings.Split(k, ".")[0]}
				switch k {
				case "EntityAt.-1":
					op.ID = -1
				case "EntityAt.count":
					op.ID, op.Alt = 0, true
				case "Step.0":
					op.ID = 0
				case "Step.-1":
					op.ID = -1
				}
				if cached {
					if len(g.S.regs) == 0 {
						return nil
					}
					op.Slot = ip(Pick(g.R, sortedSlots(g.S.regs)))
				} else {
					op.F = g.Filter(2, true)
				}
				return op
			})
		}
	}

	// ---- resources
	add("res.dup.Add", true, func(g *Gen) *Op {
		ids := []int{}
		for id := range g.S.Res.Present {
			ids = append(ids, id)
		}
		if len(ids) == 0 {
			return nil
		}
		sort.Ints(ids)
		return &Op{K: "ResAdd", ID: Pick(g.R, ids)}
	})
	add("res.missing.Remove", true, func(g *Gen) *Op {
		ids := []int{}
		for id := range g.S.ResIDs {
			if _, ok := g.S.Res.Present[id]; !ok {
				ids = append(ids, id)
			}
		}
		if len(ids) == 0 {
			return nil
		}
		return &Op{K: "ResRemove", ID: Pick(g.R, ids)}
	})

	// ---- cache
	add("cache.double.Register", true, func(g *Gen) *Op {
		if len(g.S.regs) == 0 {
			return nil
		}
		return &Op{K: "CacheRegisterCached", Slot: ip(Pick(g.R, sortedSlots(g.S.regs)))}
	})
	add("cache.double.Unregister", true, func(g *Gen) *Op {
		if len(g.S.regs) == 0 {
			return nil
		}
		return &Op{K: "CacheUnregisterTwice", Slot: ip(Pick(g.R, sortedSlots(g.S.regs)))}
	})

	add("cache.stale.Unregister", true, func(g *Gen) *Op {
		// a handle that was unregistered earlier, possibly many operations and registrations ago
		if len(g.S.stale) == 0 {
			return nil
		}
		return &Op{K: "CacheUnregisterStale", ID: g.R.Intn(len(g.S.stale))}
	})

	for v, nm := range []string{"Query", "RemoveEntities", "Batch.Add", "Batch.Remove", "Batch.AddQ", "Batch.SetRelation"} {
		v := v
		add("cache.stale."+nm, true, func(g *Gen) *Op {
			if len(g.S.stale) == 0 || len(g.S.IDs) == 0 {
				return nil
			}
			return &Op{K: "CacheUseStale", ID: g.R.Intn(len(g.S.stale)), Trav: v + 6*g.R.Intn(5), Add: []int{g.R.Intn(len(g.S.IDs))}}
		})
	}

	// ---- type limit
	add("limit.component", true, func(g *Gen) *Op {
		if len(g.S.IDs) < ecs.MaskTotalBits {
			return nil
		}
		return &Op{K: "RegisterOverLimit", Key: fmt.Sprintf("F%d", 9000+g.R.Intn(500))}
	})
	add("limit.resource", true, func(g *Gen) *Op {
		if len(g.S.ResIDs) < ecs.MaskTotalBits {
			return nil
		}
		return &Op{K: "RegisterOverLimit", Alt: true, Key: fmt.Sprintf("F%d", 9000+g.R.Intn(500))}
	})
	return rows
}

func (g *Gen) anyUsedNot(x int) int {
	for try := 0; try < 20; try++ {
		if y := g.anyUsed(); y != x {
			return y
		}
	}
	return x
}

// PublicSnapshot serializes every public observable of the world.
func (s *Sess) PublicSnapshot() string {
	var sb strings.Builder
	w := s.W
	d := w.DumpEntities()
	fmt.Fprintf(&sb, "dump %v %v %d %d\n", d.Entities, d.Alive, d.Next, d.Available)
	snap := s.Snapshot()
	es := make([]ecs.Entity, 0, len(snap))
	for e := range snap {
		es = append(es, e)
	}
	sortEnts(es)
	for _, e := range es {
		sn := snap[e]
		fmt.Fprintf(&sb, "%v %v %v ", e, sn.IDs, sn.Target)
		for _, id := range sn.IDs {
			fmt.Fprintf(&sb, "%x.", sn.Vals[id])
		}
		fmt.Fprintf(&sb, " ids=%v\n", s.nums(scribbled(w.Ids(e))))
	}
	fmt.Fprintf(&sb, "locked %v\n", w.IsLocked())
	for i, id := range scribbledRes(ecs.ResourceIDs(w)) {
		has := w.Resources().Has(id)
		var ptr uintptr
		if r := w.Resources().Get(id); r != nil {
			ptr = reflect.ValueOf(r).Pointer()
		}
		tp, _ := ecs.ResourceType(w, id)
		fmt.Fprintf(&sb, "res %d %v %x %v\n", i, has, ptr, tp)
	}
	for i, id := range scribbled(ecs.ComponentIDs(w)) {
		info, ok := ecs.ComponentInfo(w, id)
		fmt.Fprintf(&sb, "comp %d %v %v %v\n", i, ok, info.Type, info.IsRelation)
	}
	for _, sl := range sortedSlots(s.regs) {
		fmt.Fprintf(&sb, "reg %d %v\n", sl, s.iterate(&s.regs[sl].cached))
	}
	st := w.Stats()
	fmt.Fprintf(&sb, "stats %+v cached=%d comps=%d\n", st.Entities, st.CachedFilters, st.ComponentCount)
	return sb.String()
}

func init() { CaseFns["C10"] = caseC10 }

func firstDiff(a, b string) string {
	la, lb := strings.Split(a, "\n"), strings.Split(b, "\n")
	for i := 0; i < len(la) && i < len(lb); i++ {
		if la[i] != lb[i] {
			return fmt.Sprintf("before: %.300s\n after: %.300s", la[i], lb[i])
		}
	}
	return fmt.Sprintf("%d vs %d lines", len(la), len(lb))
}

// InjectFault executes one illegal call with before/after snapshots. Returns false on violation.
func InjectFault(s *Sess, row *FaultRow, op *Op) bool {
	op.Ill = row.Name
	var pub, core string
	if row.Atomic {
		pub = s.PublicSnapshot()
		if HooksOn {
			core, _ = hookShape(s.W)
		}
	}
	s.Do(op)
	s.Cov.N["fault:"+row.Name]++
	if s.Failed() {
		return false
	}
	if row.Atomic {
		if after := s.PublicSnapshot(); after != pub {
			s.fail("illegal.changed:"+row.Name, "failed call (%s) changed the world: %s", row.Name, firstDiff(pub, after))
			return false
		}
		if HooksOn {
			if c2, _ := hookShape(s.W); c2 != core {
				s.fail("illegal.changed.hidden:"+row.Name, "failed call (%s) changed hidden state: %s", row.Name, firstDiff(core, c2))
				return false
			}
			if err := hookInv(s.W); err != nil {
				s.fail("illegal.inv:"+row.Name, "after failed call (%s): %v", row.Name, err)
				return false
			}
		}
		s.Cov.N["fault_snapshots_compared"]++
	}
	return true
}

// C10: illegal operations panic, and single-entity failures change nothing.
func caseC10(c *Ctx) {
	rows := FaultTable()
	var cfg Cfg
	if c.Mode == "limit" {
		cfg = GenCfg(c.R, 0)
		for len(cfg.Types) < ecs.MaskTotalBits {
			cfg.Types = append(cfg.Types, fmt.Sprintf("F%d", 7000+len(cfg.Types)))
		}
	} else {
		cfg = GenCfg(c.R, 0)
	}
	p := DefaultProfile()
	p.Steps = 150
	p.Zero("RegisterType")
	if c.Mode != "limit" {
		// types for the rejected-registration episodes below: relation and plain shapes alternate
		p.Late = lateKeys(c.R, 24)
		for i := range p.Late {
			if (i+c.Case)%3 == 0 {
				p.Late[i] = "X" + p.Late[i][1:]
			}
		}
	}
	p.W["CacheRegister"] = 5
	p.W["CacheUnregister"] = 4
	p.W["ResRegister"], p.W["ResAdd"], p.W["ResRemove"] = 2, 3, 2
	s := NewSess(cfg, Opts{Model: true, Sweep: c.Case%2 == 0, Inv: true, Ledger: true, Track: true, NoTrans: true})
	if c.Mode == "limit" {
		for i := 0; i < ecs.MaskTotalBits; i++ {
			s.resRegister(fmt.Sprintf("F%d", 8000+i))
		}
	}
	g := NewGen(c.R, s, p)
	next := c.Case * 7 % len(rows)
	injected, maxRun, run := 0, 0, 0
	rich := false
	for i := 0; i < p.Steps && !s.Failed(); i++ {
		if i > 15 && c.R.Chance(0.3) {
			burst := 1
			if c.R.Chance(0.3) {
				burst = 3 + c.R.Intn(3)
			}
			for b := 0; b < burst && !s.Failed(); b++ {
				// find the next applicable row
				for k := 0; k < len(rows); k++ {
					row := &rows[(next+k)%len(rows)]
					if c.Mode == "limit" && !strings.HasPrefix(row.Name, "limit.") && c.R.Chance(0.7) {
						continue
					}
					if op := row.Gen(g); op != nil {
						next = (next + k + 1) % len(rows)
						if HooksOn {
							a, r, t := hookTables(s.W)
							_ = a
							if t >= 3 && s.W.Stats().Entities.Recycled > 0 {
								rich = true
								_ = r
							}
						} else if len(s.M.Alive) > 3 {
							rich = true
						}
						if !InjectFault(s, row, op) {
							break
						}
						injected++
						run++
						if run > maxRun {
							maxRun = run
						}
						break
					}
				}
			}
			continue
		}
		run = 0
		if i > 10 && c.Mode != "limit" && c.R.Chance(0.04) {
			// a registration rejected by a locked world, then an accepted one: the accepted type must not
			// inherit anything from the rejected one (the rows above keep probing it afterwards)
			if rop := g.gen("RegisterType"); rop != nil {
				q := s.W.Query(ecs.All())
				ok := InjectFault(s, &FaultRow{Name: "locked.RegisterType", Atomic: true}, rop)
				if s.W.IsLocked() {
					q.Close()
				}
				if !ok {
					break
				}
				if aop := g.gen("RegisterType"); aop != nil {
					s.Do(aop)
					if s.Failed() || !checkRegistry(s, "after a rejected and an accepted registration") {
						break
					}
					s.Cov.N["rejected_then_accepted_registration"]++
				}
			}
			continue
		}
		op := g.Next()
		if op.Q && op.Ill == "" && c.R.Chance(0.4) {
			op.Probe = Pick(c.R, []string{"entityat-1", "entityatcount", "step0", "step-1"})
		}
		s.Do(op)
	}
	s.Cov.N["faults_injected"] += injected
	if maxRun >= 3 {
		s.Cov.N["fault_runs_3plus"]++
	}
	finish(c, s, injected >= 5 && rich)
}

func init() {
	extraGen["ResRegister"] = func(g *Gen) *Op {
		if len(g.S.ResIDs) >= 6 {
			return nil
		}
		return &Op{K: "ResRegister", Key: fmt.Sprintf("S%d", len(g.S.ResIDs))}
	}
	extraGen["ResAdd"] = func(g *Gen) *Op {
		c := []int{}
		for id := range g.S.ResIDs {
			if _, ok := g.S.Res.Present[id]; !ok {
				c = append(c, id)
			}
		}
		if len(c) == 0 {
			return nil
		}
		return &Op{K: "ResAdd", ID: Pick(g.R, c)}
	}
	extraGen["ResRemove"] = func(g *Gen) *Op {
		c := []int{}
		for id := range g.S.Res.Present {
			c = append(c, id)
		}
		if len(c) == 0 {
			return nil
		}
		sort.Ints(c)
		return &Op{K: "ResRemove", ID: Pick(g.R, c)}
	}
}
