package h

import (
	"fmt"
	"sort"

	"github.com/mlange-42/arche/ecs"
)

// Profile steers the op generator.
type Profile struct {
	W        map[string]int // weights per op kind
	Steps    int            // ops per history
	MaxEnts  int            // soft population cap
	MaxBatch int            // max batch creation size
	MaxRegs  int            // most filters registered at a time (0: 4)
	PCached  float64        // probability that a batch/query op goes through a registered filter
	PEmpty   float64        // probability of empty add/remove lists
	NoLogic  bool           // only mask/relation filters
	RelRegs  bool           // registered filters are mostly relation filters
	Late     []string       // type keys registered late by RegisterType ops
}

// DefaultWeights is the full operation mix.
func DefaultWeights() map[string]int {
	return map[string]int{
		"NewEntity": 8, "NewEntityWith": 6, "BuilderNew": 10, "RemoveEntity": 10,
		"Add": 8, "Remove": 8, "Exchange": 8, "Assign": 5, "Set": 5, "WritePtr": 5,
		"RelSet": 8, "RelExchange": 5, "BuilderAdd": 5,
		"NewBatch": 6, "BatchAdd": 3, "BatchRemove": 3, "BatchExchange": 3, "BatchSetRel": 4,
		"RelExchangeBatch": 3, "BatchRemoveEntities": 2,
		"Reset": 1, "CacheRegister": 2, "CacheUnregister": 1, "CacheReplace": 1, "RegisterType": 1, "QueryCheck": 4,
	}
}

// DefaultProfile returns the full-mix profile.
func DefaultProfile() *Profile {
	return &Profile{W: DefaultWeights(), Steps: 150, MaxEnts: 50, MaxBatch: 12, PCached: 0.4, PEmpty: 0.03}
}

// Clone copies a profile.
func (p *Profile) Clone() *Profile {
	c := *p
	c.W = map[string]int{}
	for k, v := range p.W {
		c.W[k] = v
	}
	c.Late = append([]string{}, p.Late...)
	return &c
}

// Scale multiplies the weights of the given kinds.
func (p *Profile) Scale(f int, kinds ...string) *Profile {
	for _, k := range kinds {
		p.W[k] *= f
	}
	return p
}

// Zero removes kinds.
func (p *Profile) Zero(kinds ...string) *Profile {
	for _, k := range kinds {
		p.W[k] = 0
	}
	return p
}

// Interesting ID positions: mask-word and layout-chunk boundaries.
func interestingIDs() []int {
	all := []int{0, 1, 15, 16, 17, 31, 32, 47, 48, 63, 64, 65, 127, 128, 129, 191, 192, 239, 240, 255}
	r := []int{}
	for _, x := range all {
		if x < ecs.MaskTotalBits {
			r = append(r, x)
		}
	}
	return r
}

// GenCfg draws a world configuration. maxTypes caps the registry size (0: the build's limit).
func GenCfg(r *Rng, maxTypes int) Cfg {
	limit := ecs.MaskTotalBits
	if maxTypes > 0 && maxTypes < limit {
		limit = maxTypes
	}
	cfg := Cfg{
		CapInc:    Pick(r, []int{1, 1, 2, 3, 8, 128}),
		RelCapInc: Pick(r, []int{0, 1, 2, 128}),
	}
	nRel := 2 + r.Intn(2)
	nVal := 4 + r.Intn(5)
	nUsed := nRel + nVal
	var total int
	switch r.Weighted([]int{5, 3, 2}) {
	case 0:
		total = nUsed + r.Intn(4)
	case 1:
		total = nUsed + r.Intn(70)
	default:
		total = limit - r.Intn(20)
	}
	if total > limit {
		total = limit
	}
	if total < nUsed {
		total = nUsed
	}
	// choose positions
	pos := map[int]bool{}
	cands := []int{}
	for _, x := range interestingIDs() {
		if x < total {
			cands = append(cands, x)
		}
	}
	Shuffle(r, cands)
	for _, x := range cands {
		if len(pos) < nUsed && r.Chance(0.7) {
			pos[x] = true
		}
	}
	for len(pos) < nUsed {
		pos[r.Intn(total)] = true
	}
	used := []int{}
	for p := range pos {
		used = append(used, p)
	}
	sort.Ints(used)
	Shuffle(r, used)
	keys := make([]string, total)
	vals := []string{"S0", "S1", "S2", "S3", "S4", "S5", "S6", "S7", "S8", "S9", "S10", "S11"}
	Shuffle(r, vals)
	rels := []string{"R0", "R1", "R2"}
	Shuffle(r, rels)
	for i, p := range used {
		if i < nRel {
			keys[p] = rels[i]
		} else {
			keys[p] = vals[i-nRel]
		}
	}
	fill := r.Intn(1000)
	for i := range keys {
		if keys[i] == "" {
			keys[i] = fmt.Sprintf("F%d", fill+i)
		}
	}
	sort.Ints(used)
	cfg.Types = keys
	cfg.Used = used
	return cfg
}

// Gen generates legal operations from the model state.
type Gen struct {
	R        *Rng
	S        *Sess
	P        *Profile
	nextSlot int
	vseq     int
	late     int
	kinds    []string

	allowEmptyBatch bool // genRow may return batch exchanges without components (C09, locked world only)
}

// NewGen creates a generator.
func NewGen(r *Rng, s *Sess, p *Profile) *Gen {
	g := &Gen{R: r, S: s, P: p}
	for k := range p.W {
		g.kinds = append(g.kinds, k)
	}
	sort.Strings(g.kinds)
	return g
}

func (g *Gen) val() int { g.vseq++; return g.vseq }

func (g *Gen) vals(n int) []int {
	r := make([]int, n)
	for i := range r {
		r[i] = g.val()
	}
	return r
}

func (g *Gen) used() []int { return g.S.Cfg.Used }

func (g *Gen) isRel(id int) bool { return g.S.M.Types[id].Rel }

// subset draws up to max distinct elements, with at most one relation ID when oneRel.
func (g *Gen) subset(c []int, max int, allowRel bool) []int {
	c = append([]int{}, c...)
	Shuffle(g.R, c)
	n := g.R.Intn(max + 1)
	r := []int{}
	hasRel := false
	for _, id := range c {
		if len(r) >= n {
			break
		}
		if g.isRel(id) {
			if !allowRel || hasRel {
				continue
			}
			hasRel = true
		}
		r = append(r, id)
	}
	return r
}

func (g *Gen) alive() []ecs.Entity { return g.S.M.AliveSorted() }

func (g *Gen) pickAlive() (ecs.Entity, bool) {
	a := g.alive()
	if len(a) == 0 {
		return ecs.Entity{}, false
	}
	return Pick(g.R, a), true
}

// pickTarget draws a legal target: zero, an alive entity, or self.
func (g *Gen) pickTarget(self ecs.Entity) ecs.Entity {
	a := g.alive()
	switch g.R.Weighted([]int{2, 6, 1, 3}) {
	case 0:
		return ecs.Entity{}
	case 1:
		if len(a) > 0 {
			return Pick(g.R, a)
		}
	case 2:
		if !self.IsZero() {
			return self
		}
	case 3:
		// prefer entities that already are targets (several children per parent)
		ts := []ecs.Entity{}
		for t := range g.S.targets {
			if _, ok := g.S.M.Alive[t]; ok {
				ts = append(ts, t)
			}
		}
		if len(ts) > 0 {
			sortEnts(ts)
			return Pick(g.R, ts)
		}
		if len(a) > 0 {
			return Pick(g.R, a)
		}
	}
	return ecs.Entity{}
}

func (g *Gen) relsUsed() []int {
	r := []int{}
	for _, id := range g.used() {
		if g.isRel(id) {
			r = append(r, id)
		}
	}
	return r
}

func minus(a []int, has func(int) bool) []int {
	r := []int{}
	for _, x := range a {
		if !has(x) {
			r = append(r, x)
		}
	}
	return r
}

// Filter draws a filter expression.
func (g *Gen) Filter(depth int, top bool) *FSpec {
	ws := []int{30, 15, 8, 8, 6, 5, 6, 6, 4, 4, 18}
	if !top {
		ws[10] = 0
	}
	if depth <= 0 || g.P.NoLogic {
		ws[6], ws[7], ws[8], ws[9] = 0, 0, 0, 0
	}
	if g.P.NoLogic {
		ws[3], ws[4], ws[5] = 0, 0, 0
	}
	pool := append([]int{}, g.used()...)
	if n := len(g.S.IDs); n > len(pool) && g.R.Chance(0.2) {
		pool = append(pool, g.R.Intn(n))
	}
	few := func(max int) []int {
		s := g.subset(pool, max, true)
		return s
	}
	switch g.R.Weighted(ws) {
	case 0:
		return &FSpec{K: "all", IDs: g.subsetAny(pool, 3), Ptr: g.R.Chance(0.5)}
	case 1:
		inc := g.subsetAny(pool, 2)
		ex := g.subsetAny(pool, 2)
		if !g.R.Chance(0.1) {
			// mostly disjoint; an excluded component that is also included makes the filter unsatisfiable
			ex = minus(ex, func(x int) bool { return contains(inc, x) })
		}
		return &FSpec{K: "without", IDs: inc, Ex: ex}
	case 2:
		return &FSpec{K: "excl", IDs: few(3)}
	case 3:
		return &FSpec{K: "any", IDs: g.subsetAny(pool, 3)}
	case 4:
		return &FSpec{K: "noneof", IDs: g.subsetAny(pool, 3)}
	case 5:
		return &FSpec{K: "anynot", IDs: g.subsetAny(pool, 3)}
	case 6:
		return &FSpec{K: "and", L: g.Filter(depth-1, false), R: g.Filter(depth-1, false)}
	case 7:
		return &FSpec{K: "or", L: g.Filter(depth-1, false), R: g.Filter(depth-1, false)}
	case 8:
		return &FSpec{K: "xor", L: g.Filter(depth-1, false), R: g.Filter(depth-1, false)}
	case 9:
		return &FSpec{K: "not", L: g.Filter(depth-1, false)}
	default:
		return g.relFilter(-1)
	}
}

func (g *Gen) subsetAny(pool []int, max int) []int {
	c := append([]int{}, pool...)
	Shuffle(g.R, c)
	n := g.R.Intn(max + 1)
	if n > len(c) {
		n = len(c)
	}
	return uniq(c[:n])
}

// relFilter draws a relation filter; rel >= 0 forces the relation component.
func (g *Gen) relFilter(rel int) *FSpec {
	rels := g.relsUsed()
	var inner *FSpec
	if rel < 0 && len(rels) > 0 && g.R.Chance(0.9) {
		rel = Pick(g.R, rels)
	}
	others := minus(g.used(), g.isRel)
	if rel >= 0 {
		ids := append([]int{rel}, g.subsetAny(others, 2)...)
		switch g.R.Intn(4) {
		case 0:
			inner = &FSpec{K: "without", IDs: ids, Ex: minus(g.subsetAny(others, 2), func(x int) bool { return contains(ids, x) })}
		case 1:
			inner = &FSpec{K: "excl", IDs: ids}
		default:
			inner = &FSpec{K: "all", IDs: ids, Ptr: g.R.Chance(0.5)}
		}
	} else {
		inner = &FSpec{K: "all", IDs: g.subsetAny(others, 2), Ptr: true}
	}
	// target: zero, any target ever used (alive or dead), or a random alive entity
	ts := []ecs.Entity{{}}
	for t := range g.S.targets {
		ts = append(ts, t)
	}
	sortEnts(ts)
	t := Pick(g.R, ts)
	if g.R.Chance(0.25) {
		if a, ok := g.pickAlive(); ok {
			t = a
		}
	}
	return &FSpec{K: "rel", L: inner, T: entP(t)}
}

// filterWith draws a filter whose matches all carry component id.
func (g *Gen) filterWith(id int) *FSpec {
	others := minus(g.used(), func(x int) bool { return x == id })
	ids := append([]int{id}, g.subsetAny(minus(others, g.isRel), 2)...)
	switch g.R.Weighted([]int{5, 2, 1, 4, 1}) {
	case 0:
		return &FSpec{K: "all", IDs: ids, Ptr: g.R.Chance(0.5)}
	case 1:
		return &FSpec{K: "without", IDs: ids, Ex: minus(g.subsetAny(others, 2), func(x int) bool { return contains(ids, x) })}
	case 2:
		return &FSpec{K: "excl", IDs: ids}
	case 3:
		if g.isRel(id) {
			return g.relFilter(id)
		}
		return &FSpec{K: "all", IDs: ids}
	default:
		if g.P.NoLogic {
			return &FSpec{K: "all", IDs: ids}
		}
		return &FSpec{K: "and", L: &FSpec{K: "all", IDs: []int{id}}, R: g.Filter(1, false)}
	}
}

// useFilter decides whether an op goes through a registered filter or a fresh one.
func (g *Gen) useFilter(op *Op, gen func() *FSpec, ok func(*FSpec) bool) bool {
	if len(g.S.regs) > 0 && g.R.Chance(g.P.PCached) {
		slots := []int{}
		for sl, r := range g.S.regs {
			if ok == nil || ok(r.spec) {
				slots = append(slots, sl)
			}
		}
		if len(slots) > 0 {
			sort.Ints(slots)
			op.Slot = ip(Pick(g.R, slots))
			if op.K == "BatchRemoveEntities" && g.R.Chance(0.25) {
				op.Wrap = entP(g.pickTarget(ecs.Entity{}))
			}
			return true
		}
	}
	for try := 0; try < 8; try++ {
		f := gen()
		if ok == nil || ok(f) {
			op.F = f
			return true
		}
	}
	return false
}

func (g *Gen) matched(f *FSpec) []*MEnt {
	r := []*MEnt{}
	for _, e := range g.S.M.Matching(f) {
		r = append(r, g.S.M.Alive[e])
	}
	return r
}

// Next draws the next legal operation.
func (g *Gen) Next() *Op {
	m := g.S.M
	for try := 0; try < 200; try++ {
		ws := make([]int, len(g.kinds))
		n := len(m.Alive)
		for i, k := range g.kinds {
			w := g.P.W[k]
			switch k {
			case "NewEntity", "NewEntityWith", "BuilderNew", "NewBatch":
				if n >= g.P.MaxEnts {
					w = 0
				} else if n < 4 {
					w *= 5
				}
			case "RemoveEntity", "BatchRemoveEntities":
				if n > g.P.MaxEnts*3/4 {
					w *= 3
				}
			}
			ws[i] = w
		}
		k := g.kinds[g.R.Weighted(ws)]
		if op := g.gen(k); op != nil {
			return op
		}
	}
	return &Op{K: "NewEntity"}
}

func (g *Gen) maybeEmpty(x []int) []int {
	if g.R.Chance(g.P.PEmpty) {
		return nil
	}
	return x
}

func (g *Gen) gen(k string) *Op {
	m := g.S.M
	R := g.R
	switch k {
	case "NewEntity":
		return &Op{K: k, Add: g.subset(g.used(), 5, true)}
	case "NewEntityWith":
		ids := g.subset(g.used(), 5, true)
		return &Op{K: k, Add: ids, Vals: g.vals(len(ids))}
	case "BuilderNew", "NewBatch":
		ids := g.subset(g.used(), 5, true)
		if R.Chance(0.6) && len(g.relsUsed()) > 0 && m.relIn(ids) < 0 {
			ids = append(ids, Pick(R, g.relsUsed()))
		}
		op := &Op{K: k, Add: ids}
		if R.Chance(0.5) {
			op.Vals = g.vals(len(ids))
		}
		if rel := m.relIn(ids); rel >= 0 && R.Chance(0.8) {
			op.Rel = ip(rel)
			if R.Chance(0.85) {
				op.T = entP(g.pickTarget(ecs.Entity{}))
			}
		}
		if k == "NewBatch" {
			op.N = 1 + R.Intn(g.P.MaxBatch)
			op.Q = R.Chance(0.5)
			op.Trav = R.Intn(60)
		}
		return op
	case "RemoveEntity":
		e, ok := g.pickAlive()
		if !ok {
			return nil
		}
		// prefer targets now and then (target death)
		if R.Chance(0.3) {
			ts := []ecs.Entity{}
			for t := range g.S.targets {
				if _, ok := m.Alive[t]; ok {
					ts = append(ts, t)
				}
			}
			if len(ts) > 0 {
				sortEnts(ts)
				e = Pick(R, ts)
			}
		}
		return &Op{K: k, E: entP(e)}
	case "Add", "Assign", "BuilderAdd":
		e, ok := g.pickAlive()
		if !ok {
			return nil
		}
		me := m.Alive[e]
		cand := minus(g.used(), func(x int) bool { _, h := me.Comps[x]; return h })
		add := g.subset(cand, 4, m.RelOf(me) < 0)
		if len(add) == 0 && (k == "Assign" || !R.Chance(g.P.PEmpty*5)) {
			if len(cand) == 0 {
				return nil
			}
			c := Pick(R, cand)
			if g.isRel(c) && m.RelOf(me) >= 0 {
				return nil
			}
			add = []int{c}
		}
		op := &Op{K: k, E: entP(e), Add: add}
		if k == "Assign" || (k == "BuilderAdd" && R.Chance(0.5) && len(add) > 0) {
			op.Vals = g.vals(len(add))
		}
		if k == "BuilderAdd" {
			if len(add) == 0 {
				return nil
			}
			rel := m.relIn(add)
			if rel < 0 {
				rel = m.RelOf(me)
			}
			if rel >= 0 && R.Chance(0.8) {
				op.Rel = ip(rel)
				if R.Chance(0.85) {
					op.T = entP(g.pickTarget(e))
				}
			}
		}
		return op
	case "Remove":
		e, ok := g.pickAlive()
		if !ok {
			return nil
		}
		me := m.Alive[e]
		rem := g.subset(me.IDs(), 3, true)
		if len(rem) == 0 && !R.Chance(g.P.PEmpty*5) {
			if len(me.Comps) == 0 {
				return nil
			}
			rem = []int{Pick(R, me.IDs())}
		}
		return &Op{K: k, E: entP(e), Rem: rem}
	case "Exchange", "RelExchange":
		e, ok := g.pickAlive()
		if !ok {
			return nil
		}
		me := m.Alive[e]
		rem := g.subset(me.IDs(), 3, true)
		relKept := m.RelOf(me) >= 0 && !contains(rem, m.RelOf(me))
		cand := minus(g.used(), func(x int) bool { _, h := me.Comps[x]; return h })
		add := g.subset(cand, 3, !relKept)
		op := &Op{K: k, E: entP(e), Add: add, Rem: rem}
		if k == "Exchange" {
			if len(add) == 0 && len(rem) == 0 && !R.Chance(g.P.PEmpty*5) {
				return nil
			}
			return op
		}
		if len(add) == 0 && len(rem) == 0 {
			return nil
		}
		rel := m.relIn(add)
		if rel < 0 && relKept {
			rel = m.RelOf(me)
		}
		if rel < 0 {
			return nil
		}
		op.Rel = ip(rel)
		op.T = entP(g.pickTarget(e))
		return op
	case "Set", "WritePtr":
		e, ok := g.pickAlive()
		if !ok {
			return nil
		}
		me := m.Alive[e]
		if len(me.Comps) == 0 {
			return nil
		}
		return &Op{K: k, E: entP(e), ID: Pick(R, me.IDs()), Val: g.val(), Alt: k == "WritePtr" && R.Chance(0.3)}
	case "RelSet":
		es := []ecs.Entity{}
		for _, e := range g.alive() {
			if m.RelOf(m.Alive[e]) >= 0 {
				es = append(es, e)
			}
		}
		if len(es) == 0 {
			return nil
		}
		e := Pick(R, es)
		return &Op{K: k, E: entP(e), Rel: ip(m.RelOf(m.Alive[e])), T: entP(g.pickTarget(e))}
	case "BatchAdd", "BatchRemove", "BatchExchange", "RelExchangeBatch":
		op := &Op{K: k, Q: R.Chance(0.5), Trav: R.Intn(60)}
		if !g.useFilter(op, func() *FSpec { return g.Filter(2, true) }, nil) {
			return nil
		}
		ms := g.matched(g.S.specOf(op))
		anyRel, allHaveRel := false, len(ms) > 0
		relCommon := -1
		for i, me := range ms {
			r := m.RelOf(me)
			if r >= 0 {
				anyRel = true
			} else {
				allHaveRel = false
			}
			if i == 0 {
				relCommon = r
			} else if relCommon != r {
				relCommon = -3
			}
		}
		inAny := func(x int) bool {
			for _, me := range ms {
				if _, h := me.Comps[x]; h {
					return true
				}
			}
			return false
		}
		inAll := func(x int) bool {
			for _, me := range ms {
				if _, h := me.Comps[x]; !h {
					return false
				}
			}
			return true
		}
		var add, rem []int
		if k != "BatchRemove" {
			add = g.subset(minus(g.used(), inAny), 3, !anyRel)
		}
		if k != "BatchAdd" {
			rem = g.subset(minus(g.used(), func(x int) bool { return !inAll(x) }), 2, true)
			// removing the common relation allows adding another one
			if k != "BatchRemove" && anyRel && allHaveRel && relCommon >= 0 && contains(rem, relCommon) && m.relIn(add) < 0 && R.Chance(0.5) {
				for _, r := range g.relsUsed() {
					if r != relCommon && !inAny(r) {
						add = append(add, r)
						break
					}
				}
			}
		}
		if len(add) == 0 && len(rem) == 0 && !R.Chance(g.P.PEmpty*5) {
			return nil
		}
		op.Add, op.Rem = add, rem
		if k == "RelExchangeBatch" {
			if len(add) == 0 && len(rem) == 0 {
				return nil
			}
			rel := m.relIn(add)
			if rel < 0 {
				if len(ms) == 0 || relCommon < 0 || contains(rem, relCommon) {
					if len(ms) == 0 && len(g.relsUsed()) > 0 {
						// nothing matches: any registered relation in the result mask would do, keep it simple
						return nil
					}
					return nil
				}
				rel = relCommon
			}
			op.Rel = ip(rel)
			op.T = entP(g.pickTarget(ecs.Entity{}))
		}
		return op
	case "BatchSetRel":
		rels := g.relsUsed()
		if len(rels) == 0 {
			return nil
		}
		rel := Pick(R, rels)
		op := &Op{K: k, Rel: ip(rel), Q: R.Chance(0.5), Alt: R.Chance(0.4), Trav: R.Intn(60)}
		okf := func(f *FSpec) bool {
			for _, me := range g.matched(f) {
				if m.RelOf(me) != rel {
					return false
				}
			}
			return true
		}
		if !g.useFilter(op, func() *FSpec { return g.filterWith(rel) }, okf) {
			return nil
		}
		op.T = entP(g.pickTarget(ecs.Entity{}))
		return op
	case "BatchRemoveEntities":
		op := &Op{K: k}
		if !g.useFilter(op, func() *FSpec {
			if R.Chance(0.5) && len(g.used()) > 0 {
				return g.filterWith(Pick(R, g.used()))
			}
			return g.Filter(2, true)
		}, nil) {
			return nil
		}
		return op
	case "Reset":
		return &Op{K: k}
	case "CacheRegister":
		if maxRegs := g.P.MaxRegs; len(g.S.regs) >= 4 && len(g.S.regs) >= maxRegs {
			return nil
		}
		g.nextSlot++
		f := g.Filter(2, true)
		if g.P.RelRegs && R.Chance(0.7) && len(g.relsUsed()) > 0 {
			f = g.relFilter(Pick(R, g.relsUsed()))
		}
		return &Op{K: k, F: f, Slot: ip(g.nextSlot)}
	case "CacheReplace":
		if len(g.S.regs) < 2 {
			return nil
		}
		g.nextSlot++
		f := g.Filter(2, true)
		if g.P.RelRegs && R.Chance(0.7) && len(g.relsUsed()) > 0 {
			f = g.relFilter(Pick(R, g.relsUsed()))
		}
		return &Op{K: k, Slot: ip(Pick(R, sortedSlots(g.S.regs))), F: f, ID: g.nextSlot}
	case "CacheUnregister":
		if len(g.S.regs) == 0 {
			return nil
		}
		slots := []int{}
		for sl := range g.S.regs {
			slots = append(slots, sl)
		}
		sort.Ints(slots)
		return &Op{K: k, Slot: ip(Pick(R, slots))}
	case "RegisterType":
		if g.late >= len(g.P.Late) || len(g.S.IDs) >= ecs.MaskTotalBits {
			return nil
		}
		key := g.P.Late[g.late]
		g.late++
		return &Op{K: k, Key: key}
	case "QueryCheck":
		op := &Op{K: k, Trav: R.Intn(1000)}
		if !g.useFilter(op, func() *FSpec { return g.Filter(3, true) }, nil) {
			return nil
		}
		return op
	case "GC":
		return &Op{K: k}
	}
	if f, ok := extraGen[k]; ok {
		return f(g)
	}
	return nil
}

var extraGen = map[string]func(g *Gen) *Op{}

// RunHistory drives one random history and returns the session.
func RunHistory(r *Rng, cfg Cfg, o Opts, p *Profile) *Sess {
	s := NewSess(cfg, o)
	g := NewGen(r, s, p)
	for i := 0; i < p.Steps && !s.Failed(); i++ {
		s.Do(g.Next())
	}
	return s
}
