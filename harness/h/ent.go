package h

import (
	"encoding/json"
	"fmt"
	"sync"

	"github.com/mlange-42/arche/ecs"
)

var entCache sync.Map

// entOf forges an entity handle through the public JSON interface.
func entOf(e Ent) ecs.Entity {
	if e[0] == 0 && e[1] == 0 {
		return ecs.Entity{}
	}
	if v, ok := entCache.Load(e); ok {
		return v.(ecs.Entity)
	}
	var r ecs.Entity
	if err := json.Unmarshal([]byte(fmt.Sprintf("[%d,%d]", e[0], e[1])), &r); err != nil {
		panic(err)
	}
	if r.ID() != e[0] || r.Generation() != e[1] {
		panic("entity JSON forge mismatch")
	}
	entCache.Store(e, r)
	return r
}

// toEnt serializes a handle.
func toEnt(e ecs.Entity) Ent { return Ent{e.ID(), e.Generation()} }

func entP(e ecs.Entity) *Ent { x := toEnt(e); return &x }
