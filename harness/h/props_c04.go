package h

import (
	"fmt"
	"reflect"

	"github.com/mlange-42/arche/ecs"
)

func init() { CaseFns["C04"] = caseC04 }

var allIDs []ecs.ID

// AllIDs returns one ecs.ID for every possible component ID (by registering that many types once).
func AllIDs() []ecs.ID {
	if allIDs != nil {
		return allIDs
	}
	w := ecs.NewWorld()
	for i := 0; i < ecs.MaskTotalBits; i++ {
		ecs.TypeID(&w, TypeOfKey(fmt.Sprintf("F%d", 5000+i)))
	}
	allIDs = ecs.ComponentIDs(&w)
	if len(allIDs) != ecs.MaskTotalBits {
		panic("cannot obtain all component IDs")
	}
	return allIDs
}

type bset [256]bool

func (b *bset) count() int {
	n := 0
	for _, x := range b {
		if x {
			n++
		}
	}
	return n
}

func maskOf(b *bset) ecs.Mask {
	ids := AllIDs()
	sel := []ecs.ID{}
	for i := 0; i < len(ids); i++ {
		if b[i] {
			sel = append(sel, ids[i])
		}
	}
	return ecs.All(sel...)
}

// eqMaskSet checks a mask against a set through Get for every ID, TotalBitsSet and IsZero.
func eqMaskSet(m *ecs.Mask, b *bset) string {
	ids := AllIDs()
	for i := range ids {
		if m.Get(ids[i]) != b[i] {
			return fmt.Sprintf("Get(%d)=%v, set says %v", i, m.Get(ids[i]), b[i])
		}
	}
	if m.TotalBitsSet() != b.count() {
		return fmt.Sprintf("TotalBitsSet()=%d, set has %d", m.TotalBitsSet(), b.count())
	}
	if m.IsZero() != (b.count() == 0) {
		return fmt.Sprintf("IsZero()=%v, set has %d", m.IsZero(), b.count())
	}
	return ""
}

// checkMaskPair checks all binary operations of masks for sets a, b.
func checkMaskPair(a, b *bset) string {
	n := ecs.MaskTotalBits
	ma, mb := maskOf(a), maskOf(b)
	if msg := eqMaskSet(&ma, a); msg != "" {
		return "All(...): " + msg
	}
	if msg := eqMaskSet(&mb, b); msg != "" {
		return "All(...): " + msg
	}
	var and, or, xor, not bset
	contains, containsAny := true, false
	for i := 0; i < n; i++ {
		and[i] = a[i] && b[i]
		or[i] = a[i] || b[i]
		xor[i] = a[i] != b[i]
		not[i] = !a[i]
		if b[i] && !a[i] {
			contains = false
		}
		if a[i] && b[i] {
			containsAny = true
		}
	}
	r := ma.And(&mb)
	if msg := eqMaskSet(&r, &and); msg != "" {
		return "And: " + msg
	}
	r = ma.Or(&mb)
	if msg := eqMaskSet(&r, &or); msg != "" {
		return "Or: " + msg
	}
	r = ma.Xor(&mb)
	if msg := eqMaskSet(&r, &xor); msg != "" {
		return "Xor: " + msg
	}
	r = ma.Not()
	if msg := eqMaskSet(&r, &not); msg != "" {
		return "Not: " + msg
	}
	if ma.Contains(&mb) != contains {
		return fmt.Sprintf("Contains=%v, set says %v", ma.Contains(&mb), contains)
	}
	if ma.ContainsAny(&mb) != containsAny {
		return fmt.Sprintf("ContainsAny=%v, set says %v", ma.ContainsAny(&mb), containsAny)
	}
	// Mask as filter: matches component sets containing all its bits
	if ma.Matches(&mb) != (func() bool {
		for i := 0; i < n; i++ {
			if a[i] && !b[i] {
				return false
			}
		}
		return true
	}()) {
		return "Mask.Matches disagrees with superset test"
	}
	// Without / Exclusive filters built from a, applied to b
	exIDs := []ecs.ID{}
	for i := 0; i < n; i++ {
		if xor[i] && !a[i] && i%3 == 0 {
			exIDs = append(exIDs, AllIDs()[i])
		}
	}
	wf := ma.Without(exIDs...)
	wantW := true
	for i := 0; i < n; i++ {
		if a[i] && !b[i] {
			wantW = false
		}
		if xor[i] && !a[i] && i%3 == 0 && b[i] {
			wantW = false
		}
	}
	if wf.Matches(&mb) != wantW {
		return fmt.Sprintf("Without filter Matches=%v, definition says %v", wf.Matches(&mb), wantW)
	}
	// overlapping include and exclude: unsatisfiable, whatever the component set
	for i := 0; i < n; i++ {
		if a[i] {
			of := ma.Without(AllIDs()[i])
			if of.Matches(&mb) || of.Matches(&ma) {
				return fmt.Sprintf("filter including and excluding component %d matches a component set", i)
			}
			break
		}
	}
	ef := ma.Exclusive()
	if ef.Matches(&mb) != (*a == *b) {
		return fmt.Sprintf("Exclusive filter Matches=%v, sets equal=%v", ef.Matches(&mb), *a == *b)
	}
	// MaskFilter is a plain struct with exported fields: a filter that was built by Exclusive()/Without() and then
	// edited, or written as a literal, must match by its current Include/Exclude
	{
		c := -1
		for i := 0; i < n; i++ {
			if !a[i] {
				c = i
				break
			}
		}
		if c >= 0 {
			rel := ma.Exclusive()
			rel.Exclude.Set(AllIDs()[c], false) // "exactly a, but c is tolerated"
			want := true
			for i := 0; i < n; i++ {
				if a[i] && !b[i] {
					want = false
				}
				if !a[i] && b[i] && i != c {
					want = false
				}
			}
			if rel.Matches(&mb) != want {
				return fmt.Sprintf("Exclusive filter with component %d removed from Exclude: Matches=%v, definition says %v", c, rel.Matches(&mb), want)
			}
		}
		reuse := mb.Exclusive()
		reuse.Include, reuse.Exclude = ma, xorMaskOnly(a, b)
		lit := ecs.MaskFilter{Include: ma, Exclude: xorMaskOnly(a, b)}
		wantL := true
		for i := 0; i < n; i++ {
			if a[i] && !b[i] {
				wantL = false
			}
		}
		// Exclude = bits of b that are not in a: b matches only if it has none of them
		for i := 0; i < n; i++ {
			if b[i] && !a[i] {
				wantL = false
			}
		}
		if lit.Matches(&mb) != wantL || reuse.Matches(&mb) != wantL {
			return fmt.Sprintf("MaskFilter literal / re-used filter variable: Matches=%v/%v, definition says %v", lit.Matches(&mb), reuse.Matches(&mb), wantL)
		}
		if !lit.Matches(&ma) || !reuse.Matches(&ma) {
			return "MaskFilter literal / re-used filter variable does not match its own Include set"
		}
	}
	// Set/Reset round trip
	c := ma
	for i := 0; i < n; i++ {
		if b[i] {
			c.Set(AllIDs()[i], !a[i])
		}
	}
	var toggled bset
	for i := 0; i < n; i++ {
		toggled[i] = a[i] != b[i]
	}
	if msg := eqMaskSet(&c, &toggled); msg != "" {
		return "Set toggling: " + msg
	}
	c.Reset()
	var empty bset
	if msg := eqMaskSet(&c, &empty); msg != "" {
		return "Reset: " + msg
	}
	return ""
}

func caseC04(c *Ctx) {
	n := ecs.MaskTotalBits
	fail := func(kind, msg string, detail any) {
		c.Fail(Violation{Kind: kind, Msg: msg}, detail)
	}
	switch c.Mode {
	case "pairs":
		// exhaustive: case = ordered pair (a, b); sets {a},{b},{a,b} and complements
		a, b := (c.Case/n)%n, c.Case%n
		var sa, sb, sab, na, nb, nab bset
		sa[a], sb[b], sab[a], sab[b] = true, true, true, true
		for i := 0; i < n; i++ {
			na[i], nb[i], nab[i] = !sa[i], !sb[i], !sab[i]
		}
		for _, pr := range [][2]*bset{{&sa, &sb}, {&sab, &sb}, {&sa, &sab}, {&na, &sb}, {&sa, &nb}, {&na, &nb}, {&sab, &na},
			{&sab, &sab}, {&nab, &sab}, {&sab, &nab}, {&nab, &nab}} {
			if msg := checkMaskPair(pr[0], pr[1]); msg != "" {
				fail("mask.pair", fmt.Sprintf("ids %d,%d: %s", a, b, msg), map[string]int{"a": a, "b": b})
				return
			}
			c.Cov.N["mask_pair_checks"]++
		}
		if a/64 != b/64 || (n <= 64 && a != b) {
			c.NonTrivial(uint64(a)<<16 | uint64(b) | uint64(n)<<32)
		}
		c.Sample(map[string]any{"mode": "pairs", "a": a, "b": b, "sets": "{a},{b},{a,b} and complements, 11 operand pairs"})
	case "random":
		dens := []float64{0.02, 0.1, 0.5, 0.9}
		var a, b bset
		da, db := Pick(c.R, dens), Pick(c.R, dens)
		for i := 0; i < n; i++ {
			a[i] = c.R.Chance(da)
			b[i] = c.R.Chance(db)
		}
		if c.R.Chance(0.2) {
			// one word full
			w := c.R.Intn((n + 63) / 64)
			for i := w * 64; i < w*64+64 && i < n; i++ {
				a[i] = true
			}
		}
		if msg := checkMaskPair(&a, &b); msg != "" {
			fail("mask.random", msg, map[string]any{"a": setList(&a), "b": setList(&b)})
			return
		}
		c.Cov.N["mask_random_checks"]++
		wordsA, wordsB := map[int]bool{}, map[int]bool{}
		for i := 0; i < n; i++ {
			if a[i] {
				wordsA[i/64] = true
			}
			if b[i] {
				wordsB[i/64] = true
			}
		}
		if len(wordsA) > 1 || len(wordsB) > 1 || n <= 64 {
			c.NonTrivial(c.R.U64())
		}
		c.Sample(map[string]any{"mode": "random", "a": setList(&a), "b": setList(&b)})
	case "filters":
		// random filter expression x many component subsets
		w := ecs.NewWorld()
		s := &Sess{W: &w, M: NewModel(), IDs: AllIDs(), idNum: map[ecs.ID]int{}, Cov: c.Cov}
		for range s.IDs {
			s.M.Types = append(s.M.Types, TypeInfo{Key: "F", Type: reflect.TypeOf(0)})
		}
		nu := 3 + c.R.Intn(8)
		used := []int{}
		for len(used) < nu {
			x := c.R.Intn(n)
			if c.R.Chance(0.5) {
				x = Pick(c.R, interestingIDs())
			}
			if !contains(used, x) {
				used = append(used, x)
			}
		}
		s.Cfg.Used = used
		g := NewGen(c.R, s, &Profile{W: map[string]int{}})
		spec := g.Filter(4, false)
		f := spec.Build(s.IDs, entOf)
		// wrappers must match exactly like the filter they wrap
		if c.R.Chance(0.3) {
			rf := ecs.NewRelationFilter(f, ecs.Entity{})
			f = &rf
			c.Cov.N["filter_wrapped_relation"]++
		}
		if c.R.Chance(0.3) {
			cf := w.Cache().Register(f)
			f = &cf
			c.Cov.N["filter_wrapped_cached"]++
		}
		trues := 0
		for k := 0; k < 200; k++ {
			var b bset
			set := map[int]bool{}
			for _, id := range used {
				if c.R.Chance(0.5) {
					b[id] = true
					set[id] = true
				}
			}
			if c.R.Chance(0.2) {
				x := c.R.Intn(n)
				b[x] = true
				set[x] = true
			}
			m := maskOf(&b)
			want := spec.EvalSet(set)
			if got := f.Matches(&m); got != want {
				fail("filter.matches", fmt.Sprintf("filter %s on components %v: Matches=%v, definition says %v", spec, setList(&b), got, want), map[string]any{"filter": spec, "set": setList(&b)})
				return
			}
			if want {
				trues++
			}
			c.Cov.N["filter_evals"]++
		}
		if trues > 0 && trues < 200 {
			c.NonTrivial(HashStr(spec.String()))
		}
		c.Sample(map[string]any{"mode": "filters", "filter": spec.String(), "subsets": 200, "matching": trues})
	}
}

func setList(b *bset) []int {
	r := []int{}
	for i, x := range b {
		if x {
			r = append(r, i)
		}
	}
	return r
}

// xorMaskOnly returns the mask of the bits that are in b but not in a.
func xorMaskOnly(a, b *bset) ecs.Mask {
	var d bset
	for i := range d {
		d[i] = b[i] && !a[i]
	}
	return maskOf(&d)
}
