package h

import (
	"sort"

	"github.com/mlange-42/arche/ecs"
)

// Event type bits (mirror of ecs/event, kept independent on purpose).
const (
	EvCreated    = 1
	EvRemoved    = 2
	EvCompAdded  = 4
	EvCompRemove = 8
	EvRelChanged = 16
	EvTargChange = 32
)

// MEnt is the model of one alive entity.
type MEnt struct {
	Comps  map[int][]byte // component ID -> last written bytes (len = type size)
	Target ecs.Entity     // relation target; zero when the entity has no relation component
}

func (e *MEnt) clone() *MEnt {
	c := &MEnt{Comps: make(map[int][]byte, len(e.Comps)), Target: e.Target}
	for k, v := range e.Comps {
		c.Comps[k] = append([]byte{}, v...)
	}
	return c
}

// IDs returns the sorted component IDs.
func (e *MEnt) IDs() []int {
	r := make([]int, 0, len(e.Comps))
	for k := range e.Comps {
		r = append(r, k)
	}
	sort.Ints(r)
	return r
}

// ExpEvent is the event the model expects for one changed entity.
type ExpEvent struct {
	Entity     ecs.Entity
	Added      []int
	Removed    []int
	OldRel     int // -1: none
	NewRel     int
	OldTarget  ecs.Entity
	NewTarget  ecs.Entity
	Types      int
	BeforeMask []int
	AfterMask  []int
}

// Model is the reference model: what an ECS must report.
type Model struct {
	Types            []TypeInfo
	Alive            map[ecs.Entity]*MEnt
	Ledger           map[ecs.Entity]bool // every handle issued in the current reset epoch
	Epoch            int
	Created, Removed int // in the current epoch
}

// NewModel creates an empty model.
func NewModel() *Model {
	return &Model{Alive: map[ecs.Entity]*MEnt{}, Ledger: map[ecs.Entity]bool{}}
}

// RelOf returns the relation component of an entity, or -1.
func (m *Model) RelOf(e *MEnt) int {
	r := -1
	for id := range e.Comps {
		if m.Types[id].Rel {
			if r >= 0 {
				return -2 // two relations: illegal state
			}
			r = id
		}
	}
	return r
}

func (m *Model) relIn(ids []int) int {
	for _, id := range ids {
		if m.Types[id].Rel {
			return id
		}
	}
	return -1
}

func (m *Model) zero(id int) []byte { return make([]byte, m.Types[id].Size) }

// Create adds a new entity. vals may be nil (zero values) or parallel to ids.
func (m *Model) Create(e ecs.Entity, ids []int, vals []int, target ecs.Entity) ExpEvent {
	me := &MEnt{Comps: map[int][]byte{}}
	for i, id := range ids {
		if vals != nil {
			me.Comps[id] = m.Types[id].Pat(vals[i])
		} else {
			me.Comps[id] = m.zero(id)
		}
	}
	rel := m.RelOf(me)
	if rel >= 0 {
		me.Target = target
	}
	m.Alive[e] = me
	m.Ledger[e] = true
	m.Created++
	ev := ExpEvent{Entity: e, Added: sortedCopy(ids), OldRel: -1, NewRel: rel, NewTarget: me.Target, Types: EvCreated, AfterMask: me.IDs()}
	if len(ids) > 0 {
		ev.Types |= EvCompAdded
	}
	if rel >= 0 {
		ev.Types |= EvRelChanged | EvTargChange
	}
	return ev
}

// Remove removes an entity.
func (m *Model) Remove(e ecs.Entity) ExpEvent {
	me := m.Alive[e]
	rel := m.RelOf(me)
	ev := ExpEvent{Entity: e, Removed: me.IDs(), OldRel: rel, NewRel: -1, OldTarget: me.Target, Types: EvRemoved, BeforeMask: me.IDs()}
	if len(me.Comps) > 0 {
		ev.Types |= EvCompRemove
	}
	if rel >= 0 {
		ev.Types |= EvRelChanged | EvTargChange
	}
	delete(m.Alive, e)
	m.Removed++
	return ev
}

// Exchange applies add/remove (and optionally an explicit relation target) to an entity.
// Returns the expected event and whether anything changed.
func (m *Model) Exchange(e ecs.Entity, add []int, vals []int, rem []int, hasTarget bool, target ecs.Entity) (ExpEvent, bool) {
	me := m.Alive[e]
	before := me.IDs()
	oldRel := m.RelOf(me)
	oldTarget := me.Target
	if len(add) == 0 && len(rem) == 0 {
		return ExpEvent{}, false
	}
	relRemoved := false
	for _, id := range rem {
		if m.Types[id].Rel {
			relRemoved = true
		}
		delete(me.Comps, id)
	}
	for i, id := range add {
		if vals != nil {
			me.Comps[id] = m.Types[id].Pat(vals[i])
		} else {
			me.Comps[id] = m.zero(id)
		}
	}
	newRel := m.RelOf(me)
	switch {
	case newRel < 0:
		me.Target = ecs.Entity{}
	case hasTarget:
		me.Target = target
	case relRemoved || oldRel < 0:
		me.Target = ecs.Entity{}
	}
	ev := ExpEvent{Entity: e, Added: sortedCopy(add), Removed: sortedCopy(rem), OldRel: oldRel, NewRel: newRel,
		OldTarget: oldTarget, NewTarget: me.Target, BeforeMask: before, AfterMask: me.IDs()}
	if len(add) > 0 {
		ev.Types |= EvCompAdded
	}
	if len(rem) > 0 {
		ev.Types |= EvCompRemove
	}
	if oldRel != newRel {
		ev.Types |= EvRelChanged | EvTargChange
	} else if oldTarget != me.Target {
		ev.Types |= EvTargChange
	}
	return ev, true
}

// SetTarget changes the relation target.
func (m *Model) SetTarget(e ecs.Entity, target ecs.Entity) (ExpEvent, bool) {
	me := m.Alive[e]
	if me.Target == target {
		return ExpEvent{}, false
	}
	rel := m.RelOf(me)
	old := me.Target
	me.Target = target
	ids := me.IDs()
	return ExpEvent{Entity: e, OldRel: rel, NewRel: rel, OldTarget: old, NewTarget: target, Types: EvTargChange, BeforeMask: ids, AfterMask: ids}, true
}

// Reset clears entities and starts a new epoch.
func (m *Model) Reset() {
	m.Alive = map[ecs.Entity]*MEnt{}
	m.Ledger = map[ecs.Entity]bool{}
	m.Epoch++
	m.Created, m.Removed = 0, 0
}

// Match evaluates a filter spec on a model entity. The second result reports
// "don't care": a relation filter applied to an entity without relation component.
func (m *Model) Match(f *FSpec, me *MEnt) (match bool, dontCare bool) {
	if !f.Eval(func(i int) bool { _, ok := me.Comps[i]; return ok }, len(me.Comps)) {
		return false, false
	}
	if f.K == "rel" {
		if m.RelOf(me) < 0 {
			return true, true
		}
		return me.Target == entOf(*f.T), false
	}
	return true, false
}

// Matching returns the entities matching a filter, sorted by (id, gen).
func (m *Model) Matching(f *FSpec) []ecs.Entity {
	r := []ecs.Entity{}
	for e, me := range m.Alive {
		if ok, _ := m.Match(f, me); ok {
			r = append(r, e)
		}
	}
	sortEnts(r)
	return r
}

func sortEnts(r []ecs.Entity) {
	sort.Slice(r, func(i, j int) bool {
		if r[i].ID() != r[j].ID() {
			return r[i].ID() < r[j].ID()
		}
		return r[i].Generation() < r[j].Generation()
	})
}

func sortedCopy(xs []int) []int {
	r := append([]int{}, xs...)
	sort.Ints(r)
	return r
}

// AliveSorted returns alive entities sorted.
func (m *Model) AliveSorted() []ecs.Entity {
	r := make([]ecs.Entity, 0, len(m.Alive))
	for e := range m.Alive {
		r = append(r, e)
	}
	sortEnts(r)
	return r
}
