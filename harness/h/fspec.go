package h

import (
	"fmt"
	"sort"
	"strings"

	"github.com/mlange-42/arche/ecs"
	"github.com/mlange-42/arche/filter"
)

// Ent is the serializable form of an entity handle: [id, generation].
type Ent [2]uint32

// FSpec is a filter expression owned by the harness. It is built into an
// ecs.Filter for the library, and evaluated by the harness's own evaluator.
type FSpec struct {
	K   string `json:"k"`             // all, without, excl, any, noneof, anynot, and, or, xor, not, rel
	IDs []int  `json:"ids,omitempty"` // component IDs (include)
	Ex  []int  `json:"ex,omitempty"`  // excluded IDs (without)
	L   *FSpec `json:"l,omitempty"`
	R   *FSpec `json:"r,omitempty"`
	T   *Ent   `json:"t,omitempty"`   // relation target (rel)
	Ptr bool   `json:"ptr,omitempty"` // pass mask filters by pointer
}

func (f *FSpec) String() string {
	if f == nil {
		return "<nil>"
	}
	switch f.K {
	case "all", "excl", "any", "noneof", "anynot":
		return fmt.Sprintf("%s%v", f.K, f.IDs)
	case "without":
		return fmt.Sprintf("all%v.without%v", f.IDs, f.Ex)
	case "not":
		return "not(" + f.L.String() + ")"
	case "rel":
		return fmt.Sprintf("rel(%s -> %v)", f.L.String(), *f.T)
	default:
		return f.K + "(" + f.L.String() + "," + f.R.String() + ")"
	}
}

// Eval evaluates the component part of the filter on a component set given
// by a membership function and its size.
func (f *FSpec) Eval(has func(int) bool, n int) bool {
	all := func(ids []int) bool {
		for _, id := range ids {
			if !has(id) {
				return false
			}
		}
		return true
	}
	anyOf := func(ids []int) bool {
		for _, id := range ids {
			if has(id) {
				return true
			}
		}
		return false
	}
	switch f.K {
	case "all":
		return all(f.IDs)
	case "without":
		return all(f.IDs) && !anyOf(f.Ex)
	case "excl":
		return all(f.IDs) && n == len(uniq(f.IDs))
	case "any":
		return anyOf(f.IDs)
	case "noneof":
		return !anyOf(f.IDs)
	case "anynot":
		return !all(f.IDs)
	case "and":
		return f.L.Eval(has, n) && f.R.Eval(has, n)
	case "or":
		return f.L.Eval(has, n) || f.R.Eval(has, n)
	case "xor":
		return f.L.Eval(has, n) != f.R.Eval(has, n)
	case "not":
		return !f.L.Eval(has, n)
	case "rel":
		return f.L.Eval(has, n)
	}
	panic("bad fspec kind " + f.K)
}

// EvalSet evaluates on a set given as map.
func (f *FSpec) EvalSet(set map[int]bool) bool {
	n := 0
	for _, v := range set {
		if v {
			n++
		}
	}
	return f.Eval(func(i int) bool { return set[i] }, n)
}

func uniq(xs []int) []int {
	m := map[int]bool{}
	r := []int{}
	for _, x := range xs {
		if !m[x] {
			m[x] = true
			r = append(r, x)
		}
	}
	sort.Ints(r)
	return r
}

// Build turns the spec into a library filter. ids maps numbers to ecs.ID.
func (f *FSpec) Build(ids []ecs.ID, ent func(Ent) ecs.Entity) ecs.Filter {
	conv := func(xs []int) []ecs.ID {
		r := make([]ecs.ID, len(xs))
		for i, x := range xs {
			r[i] = ids[x]
		}
		return r
	}
	switch f.K {
	case "all":
		m := ecs.All(conv(f.IDs)...)
		if f.Ptr {
			return &m
		}
		return m
	case "without":
		m := ecs.All(conv(f.IDs)...).Without(conv(f.Ex)...)
		return &m
	case "excl":
		m := ecs.All(conv(f.IDs)...).Exclusive()
		return &m
	case "any":
		return filter.Any(conv(f.IDs)...)
	case "noneof":
		return filter.NoneOf(conv(f.IDs)...)
	case "anynot":
		return filter.AnyNot(conv(f.IDs)...)
	case "and":
		return filter.And(f.L.Build(ids, ent), f.R.Build(ids, ent))
	case "or":
		return filter.Or(f.L.Build(ids, ent), f.R.Build(ids, ent))
	case "xor":
		return filter.XOr(f.L.Build(ids, ent), f.R.Build(ids, ent))
	case "not":
		return filter.Not(f.L.Build(ids, ent))
	case "rel":
		rf := ecs.NewRelationFilter(f.L.Build(ids, ent), ent(*f.T))
		return &rf
	}
	panic("bad fspec kind " + f.K)
}

// Key returns a canonical string.
func (f *FSpec) Key() string {
	var sb strings.Builder
	sb.WriteString(f.String())
	return sb.String()
}

// MaxID returns the largest component ID used (or -1).
func (f *FSpec) MaxID() int {
	if f == nil {
		return -1
	}
	m := -1
	for _, x := range f.IDs {
		if x > m {
			m = x
		}
	}
	for _, x := range f.Ex {
		if x > m {
			m = x
		}
	}
	if l := f.L.MaxID(); l > m {
		m = l
	}
	if r := f.R.MaxID(); r > m {
		m = r
	}
	return m
}
