package h

import (
	"encoding/json"

	"github.com/mlange-42/arche/ecs"
)

// Op is one operation of a history. It is written to the op log before it is executed.
type Op struct {
	K        string   `json:"k"`
	E        *Ent     `json:"e,omitempty"`
	T        *Ent     `json:"t,omitempty"` // relation target, nil = none given
	Add      []int    `json:"add,omitempty"`
	Rem      []int    `json:"rem,omitempty"`
	Vals     []int    `json:"vals,omitempty"` // value numbers parallel to Add ("with values" forms)
	Rel      *int     `json:"rel,omitempty"`
	N        int      `json:"n,omitempty"`
	F        *FSpec   `json:"f,omitempty"`
	Slot     *int     `json:"slot,omitempty"` // registered-filter slot
	Q        bool     `json:"q,omitempty"`    // Q variant
	Alt      bool     `json:"alt,omitempty"`  // alternative entry point for the same operation
	Trav     int      `json:"trav,omitempty"` // how a returned query is consumed
	Ill      string   `json:"ill,omitempty"`  // illegal-argument class; the call must panic
	Key      string   `json:"key,omitempty"`  // type key (RegisterType, resources)
	ID       int      `json:"id,omitempty"`
	Val      int      `json:"val,omitempty"`
	Lsn      *LsnSpec `json:"lsn,omitempty"`
	GK       string   `json:"gk,omitempty"`    // generic-API entry point used instead of the ID-based call
	GN       int      `json:"gn,omitempty"`    // arity of the generic instantiation
	GRel     bool     `json:"grel,omitempty"`  // instantiation whose first type parameter is the relation type
	GWithRel bool     `json:"gwr,omitempty"`   // map constructed with a relation argument
	Probe    string   `json:"probe,omitempty"` // out-of-range index call made on the returned query before it is consumed
	Wrap     *Ent     `json:"wrap,omitempty"`  // the registered filter is wrapped in a RelationFilter with this target
}

// LsnSpec describes a listener to install.
type LsnSpec struct {
	Subs  int       `json:"subs"`
	Comps []int     `json:"comps,omitempty"` // nil: unrestricted
	Disp  []LsnSpec `json:"disp,omitempty"`  // non-nil: a Dispatch of these
}

func (o *Op) String() string {
	b, _ := json.Marshal(o)
	return string(b)
}

func ip(i int) *int { return &i }

// Outcome is what the call returned.
type Outcome struct {
	Panic   string
	Ents    []ecs.Entity // handles returned by the call
	Count   int          // returned count, -1 if none
	QEnts   []ecs.Entity // entities iterated from a returned query
	QFull   bool         // whether QEnts is the complete iteration
	QCount  int          // Count() of the returned query, -1 if not asked
	Created []ecs.Entity // new entities (returned or discovered)
}
