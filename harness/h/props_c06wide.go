package h

import (
	"fmt"

	"github.com/mlange-42/arche/ecs"
)

// Mode "wide" of C06: one relation node with more than 65536 tables (one target each), so that table positions,
// free-list entries and per-node counters leave every narrow integer range. Targets die with empty and non-empty
// tables, tables retire and are re-used for new targets, optionally across a Reset; after every round every child
// must still report its own target and value and relation filters must select exactly the children of their target.

type wideRel struct{ ecs.Relation }
type wideVal struct{ I uint64 }

func caseC06Wide(c *Ctx) {
	R := c.R
	conf := ecs.NewConfig().WithCapacityIncrement(Pick(R, []int{128, 1024})).WithRelationCapacityIncrement(1 + R.Intn(2))
	w := ecs.NewWorld(conf)
	valID := ecs.ComponentID[wideVal](&w)
	for i := 0; i < R.Intn(3); i++ {
		ecs.TypeID(&w, TypeOfKey(fmt.Sprintf("F%d", 9300+i)))
	}
	relID := ecs.ComponentID[wideRel](&w)
	n := 65536 + 8 + R.Intn(200)
	log := []string{fmt.Sprintf("targets=%d", n)}
	kids := map[ecs.Entity][]ecs.Entity{} // live target (or dead target with children left) -> children
	tOf := map[ecs.Entity]ecs.Entity{}    // child -> target
	vOf := map[ecs.Entity]uint64{}
	order := []ecs.Entity{} // targets in creation order
	var serial uint64
	failed := false
	fail := func(kind, f string, a ...any) {
		if !failed {
			failed = true
			c.Fail(Violation{Kind: kind, Msg: fmt.Sprintf(f, a...)}, map[string]any{"log": log})
		}
	}
	b := ecs.NewBuilder(&w, valID, relID).WithRelation(relID)
	child := func(t ecs.Entity) ecs.Entity {
		ch := b.New(t)
		serial++
		(*wideVal)(w.Get(ch, valID)).I = serial
		kids[t] = append(kids[t], ch)
		tOf[ch], vOf[ch] = t, serial
		return ch
	}
	newTarget := func(children int) ecs.Entity {
		t := w.NewEntity()
		order = append(order, t)
		kids[t] = nil
		for i := 0; i < children; i++ {
			child(t)
		}
		return t
	}
	for i := 0; i < n; i++ {
		newTarget(1)
	}
	verify := func(where string, probe []ecs.Entity) {
		if failed {
			return
		}
		for ch, t := range tOf {
			if got := w.Relations().Get(ch, relID); got != t {
				fail("target.wide", "%s: child %v reports target %v, it was assigned %v", where, ch, got, t)
				return
			}
			if v := (*wideVal)(w.Get(ch, valID)).I; v != vOf[ch] {
				fail("target.wide.value", "%s: child %v holds value %d, it was given %d", where, ch, v, vOf[ch])
				return
			}
		}
		for _, t := range probe {
			f := ecs.NewRelationFilter(ecs.All(relID), t)
			q := w.Query(&f)
			got := map[ecs.Entity]bool{}
			for q.Next() {
				got[q.Entity()] = true
			}
			want := kids[t]
			if len(got) != len(want) {
				fail("target.wide.filter", "%s: the relation filter for target %v selects %d entities, %d children were assigned to it", where, t, len(got), len(want))
				return
			}
			for _, ch := range want {
				if !got[ch] {
					fail("target.wide.filter", "%s: the relation filter for target %v misses child %v", where, t, ch)
					return
				}
			}
		}
		c.AddEvaluations(len(tOf) + len(probe))
	}
	sample := func(extra []ecs.Entity) []ecs.Entity {
		p := append([]ecs.Entity{}, extra...)
		for i := 0; i < 6 && i < len(order); i++ {
			p = append(p, order[i])
		}
		for i := 0; i < 40; i++ {
			p = append(p, order[R.Intn(len(order))])
		}
		live := p[:0]
		for _, t := range p {
			if _, ok := kids[t]; ok {
				live = append(live, t)
			}
		}
		return live
	}
	verify("after setup", sample(nil))
	reused := 0
	rounds := 3 + R.Intn(3)
	for r := 0; r < rounds && !failed; r++ {
		if c.Case%3 == 2 && r == 1 {
			// everything retires at once; the node keeps its tables for re-use
			w.Reset()
			kids, tOf, vOf, order = map[ecs.Entity][]ecs.Entity{}, map[ecs.Entity]ecs.Entity{}, map[ecs.Entity]uint64{}, nil
			log = append(log, "Reset")
			b = ecs.NewBuilder(&w, valID, relID).WithRelation(relID)
			for i := 0; i < 40+R.Intn(60); i++ {
				newTarget(1 + R.Intn(2))
			}
			verify("after Reset", sample(nil))
			continue
		}
		// victims: mostly the youngest tables (highest positions in the node), some anywhere
		k := 1 + R.Intn(40)
		for i := 0; i < k && len(order) > 40; i++ {
			idx := len(order) - 1 - R.Intn(30)
			if R.Chance(0.25) {
				idx = R.Intn(len(order))
			}
			t := order[idx]
			order = append(order[:idx], order[idx+1:]...)
			chs := kids[t]
			switch R.Intn(3) {
			case 0: // children first: the table is empty when the target dies
				for _, ch := range chs {
					w.RemoveEntity(ch)
					delete(tOf, ch)
					delete(vOf, ch)
				}
				w.RemoveEntity(t)
				delete(kids, t)
			case 1: // target first: the table retires when its last child leaves
				w.RemoveEntity(t)
				for _, ch := range chs {
					w.RemoveEntity(ch)
					delete(tOf, ch)
					delete(vOf, ch)
				}
				delete(kids, t)
			default: // target dies, children stay under the dead target
				w.RemoveEntity(t)
			}
			reused++
		}
		log = append(log, fmt.Sprintf("round %d: %d targets removed", r, k))
		fresh := []ecs.Entity{}
		for i := 0; i < 1+R.Intn(50); i++ {
			fresh = append(fresh, newTarget(1+R.Intn(3)))
		}
		// some children move to one of the new targets
		for i := 0; i < 10; i++ {
			t := order[R.Intn(len(order))]
			if chs := kids[t]; len(chs) > 0 {
				ch := chs[len(chs)-1]
				nt := Pick(R, fresh)
				if nt == t {
					continue
				}
				w.Relations().Set(ch, relID, nt)
				kids[t] = chs[:len(chs)-1]
				kids[nt] = append(kids[nt], ch)
				tOf[ch] = nt
			}
		}
		log = append(log, fmt.Sprintf("round %d: %d new targets", r, len(fresh)))
		verify(fmt.Sprintf("round %d", r), sample(fresh))
	}
	if HooksOn && !failed {
		if err := hookInv(&w); err != nil {
			fail("inv", "%v", err)
		}
	}
	c.Cov.N["wide_targets"] += n
	c.Cov.N["wide_rounds"] += rounds
	c.Cov.N["wide_targets_removed"] += reused
	c.Sample(map[string]any{"mode": "wide", "case": c.Case, "log": log})
	if !failed && reused > 0 {
		c.NonTrivial(HashStr(fmt.Sprint(log)))
	}
}
