package h

import (
	"fmt"
	"runtime"
	"sync"
	"sync/atomic"
	"unsafe"

	"github.com/mlange-42/arche/ecs"
	"github.com/mlange-42/arche/generic"
)

// Obj is a canary object: reachable only through a component, with a self-checksum.
type Obj struct {
	ID    uint64
	Check uint64
	Pad   [5]uint64
}

func chk(n uint64) uint64 { return n*0x9E3779B97F4A7C15 ^ 0xC0FFEE1234567 }

func (o *Obj) ok(id uint64) bool {
	if o == nil || o.ID != id || o.Check != chk(id) {
		return false
	}
	for i, p := range o.Pad {
		if p != id+uint64(i) {
			return false
		}
	}
	return true
}

// Pointer-carrying component types.
type P1 struct{ P *Obj }
type P2 struct{ S []*Obj }
type P3 struct{ M map[int]*Obj }
type P4 struct {
	Name string
	P    *Obj
}
type P5 struct{ I interface{} }

// P6 is a component type that is itself a pointer type (to a pointer-free struct).
type P6 = *Obj

// references of the less common kinds: a closure, a channel, an unsafe.Pointer
type P7 struct{ F func() *Obj }
type P8 struct{ C chan *Obj }
type P9 struct {
	N uint64
	U unsafe.Pointer
}

// PA is a large component (more than a page) whose only reference sits at its very end.
type PA struct {
	Pad [640]uint64
	P   *Obj
}

// Plain components used to move rows between tables.
type V1 struct{ X uint64 }
type V2 struct{ A, B uint32 }
type V3 struct{}

// canary registry: holds no reference to the objects.
var (
	finMu   sync.Mutex
	finBits []uint32 // 1 = finalized
	finN    atomic.Int64
)

func canarySlot(id uint64) {
	finMu.Lock()
	for uint64(len(finBits)) <= id {
		finBits = append(finBits, 0)
	}
	finMu.Unlock()
}

func finalized(id uint64) bool {
	finMu.Lock()
	defer finMu.Unlock()
	return finBits[id] == 1
}

// newObj allocates a tracked canary on the heap with a finalizer.
func newObj(id uint64) *Obj {
	canarySlot(id)
	o := &Obj{ID: id, Check: chk(id)}
	for i := range o.Pad {
		o.Pad[i] = id + uint64(i)
	}
	runtime.SetFinalizer(o, func(o *Obj) {
		finMu.Lock()
		finBits[o.ID] = 1
		finMu.Unlock()
		finN.Add(1)
	})
	return o
}

func lit(id uint64) Obj {
	return Obj{ID: id, Check: chk(id), Pad: [5]uint64{id, id + 1, id + 2, id + 3, id + 4}}
}

// ---- call-site shapes whose literals need not escape as far as the compiler can see.
// The referenced Obj literal carries no finalizer, so nothing but escape analysis decides where it lives.

//go:noinline
func shapeSetLiteral(w *ecs.World, e ecs.Entity, id ecs.ID, n uint64) {
	o := lit(n)
	w.Set(e, id, &P1{P: &o})
}

//go:noinline
func shapeNewEntityWithLiteral(w *ecs.World, id ecs.ID, n uint64) ecs.Entity {
	o := lit(n)
	return w.NewEntityWith(ecs.Component{ID: id, Comp: &P1{P: &o}})
}

//go:noinline
func shapeAssignLiteral(w *ecs.World, e ecs.Entity, id ecs.ID, n uint64) {
	o := lit(n)
	w.Assign(e, ecs.Component{ID: id, Comp: &P1{P: &o}})
}

//go:noinline
func shapeBuilderLiteral(w *ecs.World, id ecs.ID, n uint64, count int) {
	o := lit(n)
	ecs.NewBuilderWith(w, ecs.Component{ID: id, Comp: &P1{P: &o}}).NewBatch(count)
}

//go:noinline
func shapeGenericSetLiteral(w *ecs.World, e ecs.Entity, n uint64) {
	o := lit(n)
	m := generic.NewMap[P1](w)
	m.Set(e, &P1{P: &o})
}

//go:noinline
func shapeGenericNewWithLiteral(w *ecs.World, n uint64) ecs.Entity {
	o := lit(n)
	m := generic.NewMap1[P1](w)
	return m.NewWith(&P1{P: &o})
}

//go:noinline
func shapeStringLiteral(w *ecs.World, e ecs.Entity, id ecs.ID, n uint64) {
	var buf [24]byte
	s := fmt.Appendf(buf[:0], "canary-%016d", n)
	o := lit(n)
	w.Set(e, id, &P4{Name: string(s), P: &o})
}

var clobberSink uint64

// clobberStack overwrites the stack region below the caller.
//
//go:noinline
func clobberStack(depth int) uint64 {
	var buf [128]uint64
	for i := range buf {
		buf[i] = 0xDEADBEEFDEADBEEF ^ uint64(i*depth)
	}
	if depth > 0 {
		return clobberStack(depth-1) + buf[depth%128]
	}
	return buf[7]
}
