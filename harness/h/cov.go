package h

import (
	"encoding/json"
	"hash/fnv"
	"sort"
)

// Cov collects what the monitors observed.
type Cov struct {
	Ops    map[string]int  `json:"ops"`
	N      map[string]int  `json:"n"`
	Shapes map[string]bool `json:"-"`
}

// NewCov creates an empty coverage record.
func NewCov() *Cov {
	return &Cov{Ops: map[string]int{}, N: map[string]int{}, Shapes: map[string]bool{}}
}

// Merge adds other into c.
func (c *Cov) Merge(o *Cov) {
	for k, v := range o.Ops {
		c.Ops[k] += v
	}
	for k, v := range o.N {
		c.N[k] += v
	}
	for k := range o.Shapes {
		c.Shapes[k] = true
	}
}

// HashOps returns a hash identifying an op list.
func HashOps(ops []*Op) uint64 {
	h := fnv.New64a()
	for _, o := range ops {
		b, _ := json.Marshal(o)
		h.Write(b)
		h.Write([]byte{'\n'})
	}
	return h.Sum64()
}

func sortedKeys(m map[string]int) []string {
	r := make([]string, 0, len(m))
	for k := range m {
		r = append(r, k)
	}
	sort.Strings(r)
	return r
}
