package h

//go:generate go run ../cmd/gengeneric

import (
	"unsafe"

	"github.com/mlange-42/arche/ecs"
	"github.com/mlange-42/arche/generic"
)

type gKey struct {
	N   int
	Rel bool
}

type gInst struct {
	NewMap    func(w *ecs.World, rel bool) gMap
	NewFilter func() gFilter
}

var gInsts = map[gKey]gInst{}

type gQuery interface {
	Q() *ecs.Query
	Get() []unsafe.Pointer
	Relation() ecs.Entity
}

type gFilter interface {
	With(c ...generic.Comp)
	Without(c ...generic.Comp)
	Optional(c ...generic.Comp)
	Exclusive()
	WithRelation(c generic.Comp, t ...ecs.Entity)
	Filter(w *ecs.World, t ...ecs.Entity) ecs.Filter
	Query(w *ecs.World, t ...ecs.Entity) gQuery
	Register(w *ecs.World)
	Unregister(w *ecs.World)
}

type gMap interface {
	Get(e ecs.Entity) []unsafe.Pointer
	GetUnchecked(e ecs.Entity) []unsafe.Pointer
	New(t ...ecs.Entity) ecs.Entity
	NewBatch(n int, t ...ecs.Entity)
	NewBatchQ(n int, t ...ecs.Entity) gQuery
	NewWith(v []any, t ...ecs.Entity) ecs.Entity
	Add(e ecs.Entity, t ...ecs.Entity)
	AddBatch(f ecs.Filter, t ...ecs.Entity) int
	AddBatchQ(f ecs.Filter, t ...ecs.Entity) gQuery
	Assign(e ecs.Entity, v []any)
	Remove(e ecs.Entity, t ...ecs.Entity)
	RemoveBatch(f ecs.Filter, t ...ecs.Entity) int
	RemoveBatchQ(f ecs.Filter, t ...ecs.Entity) gQuery
	RemoveEntities(excl bool) int
}

// gTypeKeys returns the catalogue keys of the type parameters of an instantiation.
func gTypeKeys(n int, rel bool) []string {
	keys := []string{"S0", "S1", "S2", "S3", "S4", "S5", "S6", "S7", "S8", "S9", "S10", "S11"}[:n]
	if rel && n > 0 {
		keys = append([]string{"R0"}, keys[1:]...)
	}
	return keys
}
