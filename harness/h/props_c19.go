package h

import (
	"fmt"
	"sync"

	"github.com/mlange-42/arche/ecs"
	"github.com/mlange-42/arche/ecs/event"
	"github.com/mlange-42/arche/listener"
)

func init() { CaseFns["C19"] = caseC19 }

type c19Result struct {
	trans []uint64
	viol  []Violation
	cov   *Cov
	kinds map[string]bool
}

// runC19 runs the histories of goroutine gi on its own worlds.
func runC19(seed uint64, cs, gi, histories int) c19Result {
	res := c19Result{cov: NewCov(), kinds: map[string]bool{}}
	for h := 0; h < histories; h++ {
		r := NewRng(seed, uint64(cs), uint64(gi), uint64(h), 19)
		cfg := GenCfg(r, 0)
		p := DefaultProfile()
		p.Steps = 90
		// some types are unique to this goroutine and history (first seen by the process in the concurrent phase)
		p.Late = []string{fmt.Sprintf("F%d", 100000+cs*4000+gi*50+h), "S11", fmt.Sprintf("X%d", 100000+cs*4000+gi*50+h)}
		p.W["RegisterType"] = 2
		p.W["ResRegister"], p.W["ResAdd"], p.W["ResRemove"] = 1, 2, 1
		p.W["DumpJSON"], p.W["Stats"] = 3, 2 // every world saves itself now and then
		var s *Sess
		if h%3 == 1 {
			// generic API, filter package and listener package as well: their package-level state is shared too
			cfg = c18Cfg(r)
			for k := range p.W {
				p.W[k] /= 3
			}
			p.Zero("RegisterType", "Reset", "QueryCheck", "CacheRegister", "CacheUnregister")
			p.W["G.Map"], p.W["G.Single"], p.W["G.Ex"], p.W["G.Filter"] = 60, 15, 25, 45
			s = NewSess(cfg, Opts{Model: true, Track: true})
			s.gfs = map[int]*gfState{}
			n := 0
			cb := listener.NewCallback(func(w *ecs.World, e ecs.EntityEvent) { n++ }, event.All)
			cb2 := listener.NewCallback(func(w *ecs.World, e ecs.EntityEvent) { n++ }, event.Relations, s.ids(s.Cfg.Used[:2])...)
			d := listener.NewDispatch(&cb, &cb2)
			s.W.SetListener(&d)
			g := NewGen(r, s, p)
			for i := 0; i < p.Steps && !s.Failed(); i++ {
				s.Do(g.Next())
			}
			s.trace("events", n)
		} else {
			s = RunHistory(r, cfg, Opts{Model: true, Events: true, Cache: true, Sweep: h%2 == 0, Inv: h%3 == 0, Track: true}, p)
		}
		res.trans = append(res.trans, s.Transcript())
		res.cov.Merge(s.Cov)
		for k := range s.Cov.Ops {
			res.kinds[k] = true
		}
		if s.Failed() {
			res.viol = append(res.viol, s.Viol...)
			break
		}
	}
	return res
}

// C19: worlds are isolated and can be driven concurrently, one goroutine each.
func caseC19(c *Ctx) {
	if c.Mode == "shareddump" {
		c19SharedDump(c)
		return
	}
	if c.Mode == "interleaved" {
		c19Interleaved(c)
		return
	}
	if c.Mode == "sharedinputs" {
		c19SharedInputs(c)
		return
	}
	goroutines, histories := 8, 6
	if c.Tier == "thorough" {
		goroutines, histories = 32, 8
	}
	// concurrent first (one goroutine per world): types, filters and listeners are then seen for the first time
	// by several goroutines at once, so lazily initialised package-level state is reached while it is still being written
	conc := make([]c19Result, goroutines)
	var wg sync.WaitGroup
	start := make(chan struct{})
	for gi := 0; gi < goroutines; gi++ {
		wg.Add(1)
		go func(gi int) {
			defer wg.Done()
			<-start
			conc[gi] = runC19(c.Seed, c.Case, gi, histories)
		}(gi)
	}
	close(start)
	wg.Wait()
	// solo: the same histories one after the other
	solo := make([]c19Result, goroutines)
	for gi := 0; gi < goroutines; gi++ {
		solo[gi] = runC19(c.Seed, c.Case, gi, histories)
		if len(solo[gi].viol) > 0 {
			c.Fail(solo[gi].viol[0], map[string]any{"goroutine": gi, "phase": "solo"})
			return
		}
	}
	kindCount := map[string]int{}
	for gi := 0; gi < goroutines; gi++ {
		c.Cov.Merge(conc[gi].cov)
		for k := range conc[gi].kinds {
			kindCount[k]++
		}
		if len(conc[gi].viol) > 0 {
			v := conc[gi].viol[0]
			v.Kind = "concurrent." + v.Kind
			v.Msg = fmt.Sprintf("goroutine %d, only in the concurrent run: %s", gi, v.Msg)
			c.Fail(v, map[string]any{"goroutine": gi, "phase": "concurrent"})
			return
		}
		for h := range solo[gi].trans {
			if h >= len(conc[gi].trans) || conc[gi].trans[h] != solo[gi].trans[h] {
				c.Fail(Violation{Kind: "crosstalk", Msg: fmt.Sprintf("goroutine %d history %d: results differ between running alone and running concurrently with %d other worlds", gi, h, goroutines-1)},
					map[string]any{"goroutine": gi, "history": h})
				return
			}
			c.Cov.N["transcripts_compared"]++
		}
	}
	multi := 0
	for _, n := range kindCount {
		if n >= 2 {
			multi++
		}
	}
	c.Cov.N["op_kinds_run_by_2plus_goroutines"] = multi
	c.Cov.N["goroutines"] += goroutines
	c.AddEvaluations(goroutines*histories*2 - 1)
	c.Sample(map[string]any{"case": c.Case, "goroutines": goroutines, "histories_per_goroutine": histories, "op_kinds_run_by_2plus_goroutines": multi})
	if multi >= 20 {
		c.NonTrivial(HashStr(fmt.Sprint("c19", c.Seed, c.Case)))
	}
}
