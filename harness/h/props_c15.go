package h

import (
	"fmt"
	"sort"

	"github.com/mlange-42/arche/ecs"
)

func init() { CaseFns["C15"] = caseC15 }

func evKey(s *Sess, r *RecEvent) string {
	return fmt.Sprint(toEnt(r.Ev.Entity), int(r.Ev.EventTypes), r.Added, r.Removed, r.AddIDs, r.RemIDs, r.OldRel, r.NewRel, toEnt(r.Ev.OldTarget))
}

func evMultiset(s *Sess) []string {
	r := []string{}
	for i := range s.rec {
		r = append(r, evKey(s, &s.rec[i]))
	}
	sort.Strings(r)
	return r
}

// freshLike builds a fresh world with the same types, resource types, filters and listener as a.
func freshLike(a *Sess, o Opts) *Sess {
	cfg := a.Cfg0
	cfg.Types = nil
	for _, t := range a.M.Types {
		cfg.Types = append(cfg.Types, t.Key)
	}
	cfg.Used = append([]int{}, a.Cfg.Used...)
	b := NewSess(cfg, o)
	for _, k := range a.ResKeys {
		b.resRegister(k)
	}
	for _, sl := range sortedSlots(a.regs) {
		b.Do(&Op{K: "CacheRegister", F: a.regs[sl].spec, Slot: ip(sl)})
	}
	return b
}

// C15: Reset returns the world to the behaviour of a fresh one.
func caseC15(c *Ctx) {
	if c.Mode == "big" {
		caseBig(c)
		return
	}
	cfg := GenCfg(c.R, 0)
	p := DefaultProfile()
	p.Steps = 70 + c.R.Intn(60)
	p.Scale(3, "BuilderNew", "RelSet", "RemoveEntity", "CacheRegister", "BatchRemoveEntities", "NewBatch")
	p.W["ResRegister"], p.W["ResAdd"], p.W["ResRemove"] = 2, 3, 1
	p.Zero("Reset")
	p.Late = lateKeys(c.R, 4)
	o := Opts{Events: true, Track: true, Inv: true, Cache: true}
	a := NewSess(cfg, o)
	g := NewGen(c.R, a, p)
	cycles := 1 + c.R.Intn(4)
	if c.Case%10 == 0 {
		cycles = 6
	}
	rich := false
	for cyc := 0; cyc < cycles && !a.Failed(); cyc++ {
		// H_k on A
		if rels := g.relsUsed(); c.Case%6 == 4 && cyc == 0 && len(rels) > 0 {
			// the first reset hits a relation node holding exactly 32, 64 or 96 non-empty tables (whole storage pages)
			// and nothing else; the random history starts after it
			rel := Pick(c.R, rels)
			ids := append(g.subsetAny(g.nonRels(), 2), rel)
			k := 32 * (1 + c.R.Intn(3))
			parents := []ecs.Entity{}
			for i := 0; i < k && !a.Failed(); i++ {
				if out := a.Do(&Op{K: "NewEntity"}); len(out.Ents) == 1 {
					parents = append(parents, out.Ents[0])
				}
			}
			for _, pe := range parents {
				for j := 0; j < 1+c.R.Intn(2) && !a.Failed(); j++ {
					a.Do(&Op{K: "BuilderNew", Add: ids, Rel: ip(rel), T: entP(pe)})
				}
			}
			a.Cov.N["reset_of_node_with_whole_pages_of_tables"]++
		} else {
			for i := 0; i < p.Steps && !a.Failed(); i++ {
				a.Do(g.Next())
			}
		}
		if a.Failed() {
			break
		}
		// state before reset: retired tables, dead targets still referenced, registered relation filters
		deadRef, relReg := false, false
		for _, me := range a.M.Alive {
			if !me.Target.IsZero() {
				if _, ok := a.M.Alive[me.Target]; !ok {
					deadRef = true
				}
			}
		}
		for _, r := range a.regs {
			if r.spec.K == "rel" {
				relReg = true
			}
		}
		_, retired, _ := hookTables(a.W)
		if deadRef && relReg && (retired > 0 || !HooksOn) && cyc >= 1 {
			rich = true
		}
		if c.Case%16 == 7 && cyc == 0 {
			// every resource slot occupied when Reset is called
			for i := len(a.ResIDs); i < ecs.MaskTotalBits; i++ {
				a.resRegister(fmt.Sprintf("F%d", 6800+i))
			}
			for id := range a.ResIDs {
				if _, ok := a.Res.Present[id]; !ok && !a.Failed() {
					a.Do(&Op{K: "ResAdd", ID: id})
				}
			}
			a.Cov.N["reset_with_all_resources_present"]++
		}
		// (statistics were looked at before the Reset, so whatever they keep between calls is filled)
		if msg := statsConsistent(a.W); msg != "" {
			a.fail("stats.tables", "before Reset: %s", msg)
			break
		}
		a.Do(&Op{K: "Reset"})
		if a.Failed() {
			break
		}
		if msg := statsConsistent(a.W); msg != "" {
			a.fail("reset.stats", "after Reset: %s", msg)
			break
		}
		a.Cov.N["stats_checked_around_reset"]++
		// directly after Reset
		if used := a.W.Stats().Entities.Used; used != 0 || len(a.iterate(ecs.All())) != 0 {
			a.fail("reset.entities", "after Reset the world still has entities (Used=%d)", used)
			break
		}
		if a.W.IsLocked() {
			a.fail("reset.locked", "after Reset the world is locked")
			break
		}
		for i, id := range a.ResIDs {
			if a.W.Resources().Has(id) || a.W.Resources().Get(id) != nil {
				a.fail("reset.resource", "after Reset resource %d is still present", i)
				break
			}
		}
		if a.Failed() {
			break
		}
		b := freshLike(a, Opts{Events: true, Inv: true})
		if b.Failed() {
			a.fail("reset.fresh.failed", "fresh twin failed during setup: %s", b.Viol[0].Msg)
			break
		}
		// H_{k+1} on both
		steps := 40 + c.R.Intn(50)
		for i := 0; i < steps && !a.Failed(); i++ {
			op := g.Next()
			if op.K == "Reset" || op.K == "RegisterType" || op.K == "CacheRegister" || op.K == "CacheUnregister" || op.K == "ResRegister" {
				// keep both worlds' registrations aligned; these are exercised before the reset
				if op.K == "RegisterType" {
					g.late--
				}
				continue
			}
			if op.K == "BatchRemoveEntities" && len(a.M.Matching(a.specOf(op))) > 1 {
				// the order in which a batch removal recycles ids follows table/row order, which legitimately
				// differs between the two worlds ("up to iteration order"); later handles would not be comparable
				continue
			}
			outA := a.Do(op)
			if a.Failed() {
				break
			}
			evA := evMultiset(a)
			outB := b.Do(op)
			if b.Failed() {
				a.fail("reset.fresh.differs", "op %s succeeds on the reset world but fails on a fresh one: %s", op.K, b.Viol[0].Msg)
				break
			}
			if fmt.Sprint(outA.Ents) != fmt.Sprint(outB.Ents) {
				a.fail("reset.handles", "after Reset %s issued %v, a fresh world issues %v", op.K, outA.Ents, outB.Ents)
				break
			}
			if op.K == "NewBatch" && !sameEntSet(outA.Created, outB.Created) {
				a.fail("reset.handles", "after Reset NewBatch issued %v, a fresh world issues %v", outA.Created, outB.Created)
				break
			}
			if outA.Count != outB.Count || outA.QCount != outB.QCount || (outA.QFull && outB.QFull && !sameEntSet(outA.QEnts, outB.QEnts)) {
				a.fail("reset.results", "after Reset %s returned count %d/%d query %v, a fresh world %d/%d %v", op.K, outA.Count, outA.QCount, outA.QEnts, outB.Count, outB.QCount, outB.QEnts)
				break
			}
			if evB := evMultiset(b); fmt.Sprint(evA) != fmt.Sprint(evB) {
				a.fail("reset.events", "after Reset %s emitted events %v, a fresh world emits %v", op.K, evA, evB)
				break
			}
			if d := diffSnap(a.Snapshot(), b.Snapshot()); d != "" {
				a.fail("reset.state", "after Reset and %s the reset world and a fresh world differ: %s", op.K, d)
				break
			}
			for _, sl := range sortedSlots(a.regs) {
				ra, rb := a.iterate(&a.regs[sl].cached), b.iterate(&b.regs[sl].cached)
				if !sameEntSet(ra, rb) {
					a.fail("reset.cached", "registered filter %s (slot %d) selects %v on the reset world, %v on a fresh one", a.regs[sl].spec, sl, short(ra), short(rb))
					break
				}
			}
			a.Cov.N["reset_twin_ops"]++
		}
		a.Cov.N["reset_cycles"]++
	}
	finish(c, a, rich && a.Cov.N["reset_twin_ops"] >= 30)
}
