package h

import (
	"fmt"
	"reflect"
	"sync"

	"github.com/mlange-42/arche/ecs"
)

func init() { CaseFns["C16"] = caseC16 }

// checkRegistry compares everything the registry reports with the registration log.
func checkRegistry(s *Sess, where string) bool {
	w := s.W
	ids := scribbled(ecs.ComponentIDs(w))
	if len(ids) != len(s.M.Types) {
		s.fail("registry.count", "%s: ComponentIDs reports %d types, %d were registered", where, len(ids), len(s.M.Types))
		return false
	}
	seen := map[ecs.ID]int{}
	for i, id := range ids {
		if j, dup := seen[id]; dup {
			s.fail("registry.shared", "%s: types %d and %d share an ID", where, j, i)
			return false
		}
		seen[id] = i
		if id != s.IDs[i] {
			s.fail("registry.order", "%s: ComponentIDs()[%d] is not the ID handed out at the %d-th registration", where, i, i)
			return false
		}
		if HooksOn && hookIDValue(id) != i {
			s.fail("registry.dense", "%s: the %d-th registered type got ID %d", where, i, hookIDValue(id))
			return false
		}
		info, ok := ecs.ComponentInfo(w, id)
		if !ok || info.Type != s.M.Types[i].Type || info.ID != id {
			s.fail("registry.info", "%s: ComponentInfo(%d) = %v/%v, registered type %v", where, i, ok, info.Type, s.M.Types[i].Type)
			return false
		}
		if info.IsRelation != s.M.Types[i].Rel {
			s.fail("registry.relation", "%s: type %v (ID %d) IsRelation=%v, by its shape it must be %v", where, info.Type, i, info.IsRelation, s.M.Types[i].Rel)
			return false
		}
	}
	// IDs that this world has not handed out (taken from a full world) are not known to it
	for _, id := range foreignIDs()[len(ids):] {
		if info, ok := ecs.ComponentInfo(w, id); ok {
			s.fail("registry.info", "%s: ComponentInfo reports type %v for an ID beyond the %d registered types", where, info.Type, len(ids))
			return false
		}
		s.Cov.N["registry_unknown_ids"]++
	}
	s.Cov.N["registry_checks"]++
	return true
}

var (
	foreignIDList []ecs.ID
	foreignIDOnce sync.Once
)

// foreignIDs returns the IDs 0..limit-1, taken from a helper world with a full registry.
func foreignIDs() []ecs.ID {
	foreignIDOnce.Do(func() {
		w := ecs.NewWorld()
		for i := 0; i < ecs.MaskTotalBits; i++ {
			foreignIDList = append(foreignIDList, ecs.TypeID(&w, TypeOfKey(fmt.Sprintf("F%d", 9800+i))))
		}
	})
	return foreignIDList
}

func c16Keys(r *Rng, n int) []string {
	special := []string{"R0", "R1", "R2", "X1", "X4", "X7", "N0", "N1", "N2", "N3", "N4", "N5", "N6", "N7", "N8",
		"S0", "S1", "S2", "S3", "S4", "S5", "S6", "S7", "S8", "S9", "S10", "S11", "Q0", "Q1", "Q2", "Q3"}
	Shuffle(r, special)
	keys := []string{}
	base := 3000 + r.Intn(500)
	for i := 0; len(keys) < n; i++ {
		if i < len(special) && (n >= len(special) || r.Chance(0.6)) {
			keys = append(keys, special[i])
		} else {
			keys = append(keys, fmt.Sprintf("F%d", base+i))
		}
	}
	Shuffle(r, keys)
	return keys
}

// C16: type registry.
func caseC16(c *Ctx) {
	limit := ecs.MaskTotalBits
	n := c.Case % (limit + 1)
	if c.Mode == "resource" {
		caseC16Res(c, n)
		return
	}
	keys := c16Keys(c.R, n)
	n0 := 0
	if n > 0 {
		n0 = c.R.Intn(n + 1)
		if c.R.Chance(0.3) {
			n0 = n
		}
	}
	cfg := Cfg{CapInc: Pick(c.R, []int{1, 2, 8, 128}), RelCapInc: Pick(c.R, []int{0, 1, 128}), Types: keys[:n0]}
	for i, k := range cfg.Types {
		if k[0] != 'N' && (i < 3 || i > n0-3 || contains(interestingIDs(), i) || c.R.Chance(0.05)) {
			cfg.Used = append(cfg.Used, i)
		}
	}
	s := NewSess(cfg, Opts{Model: true, Sweep: true, Inv: true, Track: true, NoTrans: true})
	p := DefaultProfile()
	p.Zero("RegisterType", "Reset", "CacheRegister", "CacheUnregister", "QueryCheck")
	p.MaxEnts = 30
	g := NewGen(c.R, s, p)
	if !checkRegistry(s, "after creation") {
		finish(c, s, false)
		return
	}
	step := func(k int) {
		for i := 0; i < k && !s.Failed(); i++ {
			s.Do(g.Next())
		}
	}
	step(15)
	// late registrations interleaved with table creation
	var old ecs.Entity
	for i := n0; i < n && !s.Failed(); i++ {
		if i == n-1 {
			// remember an entity living in a table created before the last registration
			if e, ok := g.pickAlive(); ok {
				old = e
			}
		}
		s.Do(&Op{K: "RegisterType", Key: keys[i]})
		if s.Failed() {
			break
		}
		// the same type again must give the same ID and register nothing
		j := c.R.Intn(i + 1)
		if id := ecs.TypeID(s.W, TypeOfKey(keys[j])); id != s.IDs[j] {
			s.fail("registry.unstable", "type %v got a different ID when asked again", TypeOfKey(keys[j]))
			break
		}
		if i%16 == 15 || i%16 == 0 || i == n-1 || c.R.Chance(0.1) {
			if !checkRegistry(s, fmt.Sprintf("after registration %d", i)) {
				break
			}
			step(3)
		}
		if c.R.Chance(0.15) {
			step(2)
		}
	}
	gotLast := false
	if !s.Failed() && n > 0 {
		checkRegistry(s, "after all registrations")
		last := n - 1
		if keys[last][0] != 'N' && !old.IsZero() && !s.Failed() {
			if me, ok := s.M.Alive[old]; ok {
				if _, has := me.Comps[last]; !has && !(s.M.Types[last].Rel && s.M.RelOf(me) >= 0) {
					s.Do(&Op{K: "Assign", E: entP(old), Add: []int{last}, Vals: g.vals(1)})
					gotLast = !s.Failed()
				}
			}
		}
		// focus the mini-history on lowest, highest and boundary IDs
		used := []int{}
		for i := 0; i < n; i++ {
			if keys[i][0] != 'N' && (i < 2 || i >= n-3 || contains(interestingIDs(), i)) {
				used = append(used, i)
			}
		}
		if len(used) > 0 {
			s.Cfg.Used = used
			s.O.AllIDs = n <= 64 || c.Case%4 == 0
			step(35)
			// the registry survives Reset: tables that did not exist before the reset must get every registered ID too
			if c.Case%3 != 0 && !s.Failed() {
				s.Do(&Op{K: "Reset"})
				if !s.Failed() {
					checkRegistry(s, "after Reset")
				}
				s.Cov.N["registry_histories_with_reset"]++
			}
			step(25)
		}
	}
	// limit + 1, and registration in a locked world
	if !s.Failed() {
		extra := TypeOfKey(fmt.Sprintf("F%d", 9500+c.R.Intn(100)))
		before := s.PublicSnapshot()
		if n == limit {
			if !mustPanic(func() { ecs.TypeID(s.W, extra) }) {
				s.fail("registry.limit", "registering type %d of max %d did not panic", n+1, limit)
			} else if s.PublicSnapshot() != before {
				s.fail("registry.limit.changed", "the rejected registration beyond the limit changed the world: %s", firstDiff(before, s.PublicSnapshot()))
			}
			// the refused type again, and others: refused every time, and nothing sticks
			for k := 0; k < 3 && !s.Failed(); k++ {
				tp := extra
				if k == 1 {
					tp = TypeOfKey(fmt.Sprintf("F%d", 9600+c.R.Intn(100)))
				}
				if !mustPanic(func() { ecs.TypeID(s.W, tp) }) {
					s.fail("registry.limit", "registering a type beyond the limit of %d was refused once, attempt %d (same type: %v) did not panic", limit, k+2, k != 1)
				} else if s.PublicSnapshot() != before {
					s.fail("registry.limit.changed", "rejected registrations beyond the limit changed the world: %s", firstDiff(before, s.PublicSnapshot()))
				}
			}
			s.Cov.N["limit_plus_one"]++
		} else {
			// the rejected type is a relation type in every second case: nothing of it may stick to the ID
			// that the next successful registration receives
			if c.Case%2 == 0 {
				extra = TypeOfKey(fmt.Sprintf("X%d", 9500+c.R.Intn(100)))
			}
			// locked by one query, or by many at a time (up to every lock there is)
			depth := Pick(c.R, []int{1, 1, 1, 2, 17, 63, 64, 65, 127, 128, 129, 194, 255, 256})
			if depth > limit {
				depth = limit
			}
			qs := make([]ecs.Query, depth)
			for i := range qs {
				qs[i] = s.W.Query(ecs.All())
			}
			if !mustPanic(func() { ecs.TypeID(s.W, extra) }) {
				s.fail("registry.locked", "registering a new type in a world locked by %d open queries did not panic", depth)
			}
			for i := range qs {
				qs[i].Close()
			}
			s.Cov.N[fmt.Sprintf("locked_registration_depth_%d", depth)]++
			if !s.Failed() && s.PublicSnapshot() != before {
				s.fail("registry.locked.changed", "the rejected registration in a locked world changed the world: %s", firstDiff(before, s.PublicSnapshot()))
			}
			// known types stay resolvable while locked
			if n > 0 && !s.Failed() {
				q := s.W.Query(ecs.All())
				j := c.R.Intn(n)
				if mustPanic(func() {
					if ecs.TypeID(s.W, TypeOfKey(keys[j])) != s.IDs[j] {
						panic("changed")
					}
				}) {
					s.fail("registry.locked.known", "asking for the ID of an already registered type in a locked world failed")
				}
				q.Close()
			}
			s.Cov.N["locked_registration"]++
		}
		if !s.Failed() {
			checkRegistry(s, "after the rejected registration")
			step(5)
		}
		// registrations after a rejected one behave like any other (shape decides the relation flag, IDs stay dense)
		for k := 0; k < 2 && !s.Failed() && len(s.IDs) < limit; k++ {
			key := fmt.Sprintf("F%d", 9700+c.R.Intn(200))
			if (c.Case/2+k)%2 == 1 {
				key = fmt.Sprintf("X%d", 9700+c.R.Intn(200))
			}
			s.Do(&Op{K: "RegisterType", Key: key})
			if !s.Failed() {
				checkRegistry(s, "after a registration that follows a rejected one")
				s.Cov.N["registration_after_rejected"]++
			}
			if !s.Failed() {
				step(4)
			}
		}
	}
	chunkEdge := 241
	if limit == 64 {
		chunkEdge = 49
	}
	if gotLast {
		s.Cov.N["old_table_got_last_id"]++
	}
	finish(c, s, n >= chunkEdge && gotLast)
}

func caseC16Res(c *Ctx, n int) {
	limit := ecs.MaskTotalBits
	w := ecs.NewWorld()
	s := &Sess{W: &w, M: NewModel(), Cov: NewCov(), idNum: map[ecs.ID]int{}, Res: &ResModel{Present: map[int]any{}}}
	keys := c16Keys(c.R, n)
	// components registered in another order, interleaved
	comp := append([]string{}, keys...)
	Shuffle(c.R, comp)
	ci := 0
	for i, k := range keys {
		for ci < len(comp) && c.R.Chance(0.5) {
			ecs.TypeID(&w, TypeOfKey(comp[ci]))
			ci++
		}
		id := ecs.ResourceTypeID(&w, TypeOfKey(k))
		s.ResIDs = append(s.ResIDs, id)
		s.ResKeys = append(s.ResKeys, k)
		if HooksOn && hookResIDValue(id) != i {
			s.fail("resreg.dense", "the %d-th registered resource type got ID %d", i, hookResIDValue(id))
			break
		}
		j := c.R.Intn(i + 1)
		if ecs.ResourceTypeID(&w, TypeOfKey(keys[j])) != s.ResIDs[j] {
			s.fail("resreg.unstable", "resource type %v got a different ID when asked again", TypeOfKey(keys[j]))
			break
		}
	}
	if !s.Failed() {
		ids := scribbledRes(ecs.ResourceIDs(&w))
		if len(ids) != n {
			s.fail("resreg.count", "ResourceIDs reports %d, %d registered", len(ids), n)
		}
		seen := map[ecs.ResID]bool{}
		for i := 0; i < len(ids) && !s.Failed(); i++ {
			if ids[i] != s.ResIDs[i] || seen[ids[i]] {
				s.fail("resreg.order", "ResourceIDs()[%d] is not the ID of the %d-th registration (or shared)", i, i)
			}
			seen[ids[i]] = true
			if tp, ok := ecs.ResourceType(&w, ids[i]); !ok || tp != TypeOfKey(keys[i]) {
				s.fail("resreg.type", "ResourceType(%d) = %v, registered %v", i, tp, TypeOfKey(keys[i]))
			}
		}
	}
	// what a type is registered as on the resource side says nothing about the component side: a relation type that
	// is (also) a resource type still counts as a relation when it becomes a component - in this world and in worlds
	// created later in the same process
	if !s.Failed() {
		for _, k := range []string{"R0", "R1", "X9901", "S0", "N0"} {
			if len(ecs.ResourceIDs(&w)) < limit {
				ecs.ResourceTypeID(&w, TypeOfKey(k))
			}
			for _, cw := range []*ecs.World{&w, {}} {
				if cw != &w {
					nw := ecs.NewWorld()
					cw = &nw
				}
				if len(ecs.ComponentIDs(cw)) >= limit {
					continue
				}
				id := ecs.TypeID(cw, TypeOfKey(k))
				info, ok := ecs.ComponentInfo(cw, id)
				if !ok || info.IsRelation != KeyIsRel(k) {
					s.fail("registry.relation", "type %v, also registered as a resource type: as a component IsRelation=%v, by its shape it must be %v", TypeOfKey(k), info.IsRelation, KeyIsRel(k))
				}
			}
		}
		s.Cov.N["relation_types_as_resources"]++
	}
	// every resource ID is usable: add / get / has / remove on lowest, highest and a few others
	if !s.Failed() && n > 0 {
		for _, i := range uniq([]int{0, n - 1, n / 2, c.R.Intn(n), c.R.Intn(n)}) {
			v := reflect.New(TypeOfKey(keys[i])).Interface()
			w.Resources().Add(s.ResIDs[i], v)
			got := w.Resources().Get(s.ResIDs[i])
			if !w.Resources().Has(s.ResIDs[i]) || got == nil || reflect.ValueOf(got).Pointer() != reflect.ValueOf(v).Pointer() {
				s.fail("resreg.use", "resource %d of %d not usable after Add", i, n)
				break
			}
			for k := 0; k < n; k++ {
				if k != i && w.Resources().Has(s.ResIDs[k]) != (s.Res.Present[k] != nil) {
					s.fail("resreg.crosstalk", "adding resource %d changed Has of resource %d", i, k)
					break
				}
			}
			if c.R.Chance(0.5) {
				w.Resources().Remove(s.ResIDs[i])
				if w.Resources().Has(s.ResIDs[i]) {
					s.fail("resreg.use", "resource %d still present after Remove", i)
				}
			} else {
				s.Res.Present[i] = v
			}
		}
	}
	if !s.Failed() && n == limit {
		if !mustPanic(func() { ecs.ResourceTypeID(&w, TypeOfKey("F9777")) }) {
			s.fail("resreg.limit", "registering resource type %d of max %d did not panic", n+1, limit)
		} else if len(ecs.ResourceIDs(&w)) != n {
			s.fail("resreg.limit.changed", "the rejected resource registration changed the registry")
		}
		// the refused type again, and another one: refused every time, and nothing sticks
		for k, key := range []string{"F9777", "F9778", "F9777"} {
			if s.Failed() {
				break
			}
			if !mustPanic(func() { ecs.ResourceTypeID(&w, TypeOfKey(key)) }) {
				s.fail("resreg.limit", "registering a resource type beyond the limit of %d was refused once, attempt %d (%s) did not panic", limit, k+2, key)
			} else if len(ecs.ResourceIDs(&w)) != n {
				s.fail("resreg.limit.changed", "rejected resource registrations changed the registry")
			}
		}
		for i, id := range scribbledRes(ecs.ResourceIDs(&w)) {
			if tp, ok := ecs.ResourceType(&w, id); !ok || tp != TypeOfKey(keys[i]) {
				if !s.Failed() {
					s.fail("resreg.limit.changed", "after rejected registrations resource ID %d is reported as %v", i, tp)
				}
			}
		}
		s.Cov.N["res_limit_plus_one"]++
	}
	s.Cov.N["resource_registries"]++
	c.Cov.Merge(s.Cov)
	c.Sample(map[string]any{"mode": "resource", "n": n, "first_keys": keys[:min(n, 8)]})
	if s.Failed() {
		for _, v := range s.Viol {
			c.Fail(v, map[string]any{"n": n, "keys": keys})
		}
		return
	}
	if n >= 2 {
		c.NonTrivial(HashStr(fmt.Sprint("res", n, keys)))
	}
}
