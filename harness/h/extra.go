package h

import (
	"reflect"

	"github.com/mlange-42/arche/ecs"
)

func (s *Sess) resRegister(key string) {
	id := ecs.ResourceTypeID(s.W, TypeOfKey(key))
	for _, o := range s.ResIDs {
		if o == id {
			return
		}
	}
	s.ResIDs = append(s.ResIDs, id)
	s.ResKeys = append(s.ResKeys, key)
}

// resAdd adds a fresh value of the resource's type; the pointer is kept for identity checks.
func (s *Sess) resAdd(op *Op) {
	v := reflect.New(TypeOfKey(s.ResKeys[op.ID])).Interface()
	s.W.Resources().Add(s.ResIDs[op.ID], v)
	s.keep = append(s.keep, v)
}

func (s *Sess) resRemove(op *Op) {
	s.W.Resources().Remove(s.ResIDs[op.ID])
}

// ResModel is the model of world resources.
type ResModel struct {
	Present map[int]any
}

// Reset clears resources.
func (r *ResModel) Reset() { r.Present = map[int]any{} }

// callExtra handles op kinds defined by property-specific drivers.
func (s *Sess) callExtra(op *Op, out *Outcome) bool {
	if f, ok := extraCalls[op.K]; ok {
		f(s, op, out)
		return true
	}
	return false
}

func (s *Sess) applyExtra(op *Op, out *Outcome) []ExpEvent {
	if f, ok := extraApply[op.K]; ok {
		return f(s, op, out)
	}
	return nil
}

var extraCalls = map[string]func(s *Sess, op *Op, out *Outcome){}
var extraApply = map[string]func(s *Sess, op *Op, out *Outcome) []ExpEvent{}
