package h

// ResModel is the model of world resources.
type ResModel struct {
	Present map[int]any
}

// Reset clears resources.
func (r *ResModel) Reset() { r.Present = map[int]any{} }

// callExtra handles op kinds defined by property-specific drivers.
func (s *Sess) callExtra(op *Op, out *Outcome) bool {
	if f, ok := extraCalls[op.K]; ok {
		f(s, op, out)
		return true
	}
	return false
}

func (s *Sess) applyExtra(op *Op, out *Outcome) []ExpEvent {
	if f, ok := extraApply[op.K]; ok {
		return f(s, op, out)
	}
	return nil
}

var extraCalls = map[string]func(s *Sess, op *Op, out *Outcome){}
var extraApply = map[string]func(s *Sess, op *Op, out *Outcome) []ExpEvent{}
