package main

import (
	"flag"
	"os"

	"verifharness/h"
)

func main() {
	a := &h.Args{}
	flag.StringVar(&a.Prop, "prop", "", "property id")
	flag.Uint64Var(&a.Seed, "seed", 1, "seed")
	flag.IntVar(&a.From, "from", 0, "first case")
	flag.IntVar(&a.Cases, "cases", 100, "number of cases")
	flag.StringVar(&a.Tier, "tier", "quick", "tier")
	flag.StringVar(&a.Mode, "mode", "", "sub-workload")
	flag.StringVar(&a.Flavor, "flavor", "std", "build flavor name")
	flag.StringVar(&a.Out, "out", "", "report file")
	flag.StringVar(&a.Replay, "replay", "", "witness file to replay")
	flag.Parse()
	os.Exit(h.DrvMain(a))
}
