package main

import (
	"flag"
	"fmt"
	"os"
	"sort"

	"verifharness/h"
)

func main() {
	prop := flag.String("prop", "smoke", "property id")
	seed := flag.Uint64("seed", 1, "seed")
	from := flag.Int("from", 0, "first case")
	cases := flag.Int("cases", 100, "number of cases")
	tier := flag.String("tier", "quick", "tier")
	out := flag.String("out", "", "report file")
	replay := flag.String("replay", "", "witness file to replay")
	flag.Parse()
	if *prop == "smoke" {
		smoke(*seed, *from, *cases)
		return
	}
	os.Exit(h.DrvMain(*prop, *seed, *from, *cases, *tier, *out, *replay))
}

func smoke(seed uint64, from, cases int) {
	kinds := map[string]int{}
	first := map[string]string{}
	for c := from; c < from+cases; c++ {
		r := h.NewRng(seed, uint64(c))
		cfg := h.GenCfg(r, 0)
		p := h.DefaultProfile()
		p.Late = []string{"F900", "S11", "X5"}
		s := h.RunHistory(r, cfg, h.Opts{Model: true, Sweep: true, Inv: true, Events: true, Cache: true, Ledger: true, Targets: true}, p)
		if s.Failed() {
			v := s.Viol[0]
			kinds[v.Kind]++
			if _, ok := first[v.Kind]; !ok {
				msg := v.Msg
				if len(msg) > 400 {
					msg = msg[:400]
				}
				first[v.Kind] = fmt.Sprintf("case %d step %d types=%d: %s\n     op=%s", c, v.Step, len(cfg.Types), msg, v.Op)
			}
		}
	}
	ks := []string{}
	for k := range kinds {
		ks = append(ks, k)
	}
	sort.Strings(ks)
	tot := 0
	for _, k := range ks {
		fmt.Printf("%5d %s\n   %s\n", kinds[k], k, first[k])
		tot += kinds[k]
	}
	fmt.Printf("failed %d of %d\n", tot, cases)
}
