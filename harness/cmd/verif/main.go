// Command verif is the runner: it builds the child binary in the flavors a check needs
// from /repo's current working tree, fans the cases out over the cores, merges the
// reports, applies known_findings.txt, writes the evidence file and prints the verdict.
package main

import (
	"bufio"
	"bytes"
	"encoding/json"
	"fmt"
	"os"
	"os/exec"
	"path/filepath"
	"regexp"
	"runtime"
	"sort"
	"strconv"
	"strings"
	"sync"
	"time"

	"verifharness/plan"
)

var root = "/verif"

func goEnv(extra ...string) []string {
	env := []string{}
	for _, e := range os.Environ() {
		if strings.HasPrefix(e, "GOFLAGS=") || strings.HasPrefix(e, "GOPROXY=") || strings.HasPrefix(e, "GOSUMDB=") ||
			strings.HasPrefix(e, "GOTOOLCHAIN=") || strings.HasPrefix(e, "GOWORK=") {
			continue
		}
		env = append(env, e)
	}
	env = append(env, "GOFLAGS=-mod=mod", "GOPROXY=off", "GOSUMDB=off", "GOTOOLCHAIN=local", "GOWORK=off")
	return append(env, extra...)
}

type buildInfo struct {
	hooks bool
	err   string
}

var buildMu sync.Mutex
var built = map[string]*buildInfo{}

// build builds one flavor of the child binary from /repo's working tree.
func build(fl string) *buildInfo {
	buildMu.Lock()
	defer buildMu.Unlock()
	if b, ok := built[fl]; ok {
		return b
	}
	f, ok := plan.Flavors[fl]
	if !ok {
		return &buildInfo{err: "unknown flavor " + fl}
	}
	repo := "/repo"
	modfile := ""
	if r := os.Getenv("VERIF_REPO"); r != "" && r != "/repo" {
		// background sweeps run against a snapshot of the repository instead of /repo itself
		repo = r
		gm, _ := os.ReadFile(filepath.Join(root, "harness", "go.mod"))
		alt := strings.Replace(string(gm), "=> /repo", "=> "+repo, 1)
		modfile = filepath.Join(root, "harness", "go.alt.mod")
		os.WriteFile(modfile, []byte(alt), 0o644)
		if b, err := os.ReadFile(filepath.Join(repo, "go.sum")); err == nil {
			os.WriteFile(filepath.Join(root, "harness", "go.alt.sum"), b, 0o644)
		}
	}
	if b, err := os.ReadFile(filepath.Join(repo, "go.sum")); err == nil {
		os.WriteFile(filepath.Join(root, "harness", "go.sum"), b, 0o644)
	}
	tool := f.GoTool
	if tool == "" {
		tool = "go"
	}
	try := func(tags string) (string, error) {
		args := []string{"build", "-tags", tags}
		if modfile != "" {
			args = append(args, "-modfile="+modfile)
		}
		args = append(args, f.Flags...)
		args = append(args, "-o", filepath.Join(root, "bin", "drv-"+fl), "./cmd/drv")
		cmd := exec.Command(tool, args...)
		cmd.Dir = filepath.Join(root, "harness")
		env := goEnv()
		if fl == "asan" || fl == "race" || fl == "racetiny" {
			env = append(env, "CGO_ENABLED=1")
		}
		cmd.Env = env
		out, err := cmd.CombinedOutput()
		return string(out), err
	}
	info := &buildInfo{hooks: true}
	tagsWanted := f.Tags
	if os.Getenv("VERIF_NOHOOKS") != "" {
		// experiment switch: how much do the public-API monitors see on their own?
		tagsWanted = strings.TrimPrefix(strings.TrimPrefix(f.Tags, "verif"), ",")
		info.hooks = false
	}
	out, err := try(tagsWanted)
	if err != nil {
		// the hook file may no longer compile against a changed tree: fall back to public-API monitors only
		tags := strings.TrimPrefix(strings.TrimPrefix(f.Tags, "verif"), ",")
		out2, err2 := try(tags)
		if err2 != nil {
			info.err = out + "\n" + out2
		} else {
			info.hooks = false
			fmt.Printf("note: flavor %s built without hooks (hook file does not compile against this tree)\n", fl)
		}
	}
	built[fl] = info
	return info
}

type childJob struct {
	part  plan.Part
	from  int
	cases int
	idx   int
}

type report struct {
	Prop        string   `json:"prop"`
	Flavor      string   `json:"flavor"`
	Mode        string   `json:"mode"`
	Evaluations int      `json:"evaluations"`
	NonTrivial  []uint64 `json:"nontrivial"`
	Cov         struct {
		Ops map[string]int `json:"ops"`
		N   map[string]int `json:"n"`
	} `json:"cov"`
	Samples    []any `json:"samples"`
	Violations []struct {
		Case    int    `json:"case"`
		Kind    string `json:"kind"`
		Msg     string `json:"msg"`
		Witness string `json:"witness"`
	} `json:"violations"`
	Hooks       bool           `json:"hooks"`
	Done        bool           `json:"done"`
	Transcripts map[int]uint64 `json:"transcripts"`
}

type viol struct {
	kind, msg, witness, flavor, mode string
	knownOnly                        bool
}

type finding struct {
	prop, key, text string
}

func loadFindings() []finding {
	res := []finding{}
	f, err := os.Open(filepath.Join(root, "known_findings.txt"))
	if err != nil {
		return res
	}
	defer f.Close()
	re := regexp.MustCompile(`^finding:\s+property=(\S+)\s+key=(\S+)\s+(.*)$`)
	sc := bufio.NewScanner(f)
	for sc.Scan() {
		if m := re.FindStringSubmatch(strings.TrimSpace(sc.Text())); m != nil {
			res = append(res, finding{m[1], m[2], m[3]})
		}
	}
	return res
}

var fatalSigs = []struct{ pat, kind string }{
	{"found pointer to free object", "fatal:gc-free-object"},
	{"marked free object", "fatal:gc-free-object"},
	{"found bad pointer in Go heap", "fatal:gc-bad-pointer"},
	{"checkmark found unmarked object", "fatal:gc-checkmark"},
	{"checkptr:", "fatal:checkptr"},
	{"AddressSanitizer", "fatal:asan"},
	{"WARNING: DATA RACE", "race"},
	{"unexpected fault address", "fatal:segv"},
	{"SIGSEGV", "fatal:segv"},
	{"fatal error:", "fatal:runtime"},
	{"panic:", "fatal:panic"},
}

func classifyFatal(out string) (string, string) {
	for _, s := range fatalSigs {
		if i := strings.Index(out, s.pat); i >= 0 {
			end := i + 600
			if end > len(out) {
				end = len(out)
			}
			return s.kind, out[i:end]
		}
	}
	if len(out) > 600 {
		out = out[len(out)-600:]
	}
	return "fatal:unknown", out
}

func tierParts(p *plan.Prop, tier string) []plan.Part {
	if tier == "thorough" && len(p.Thorough) > 0 {
		return p.Thorough
	}
	return p.Quick
}

func check(id, tier string) int {
	start := time.Now()
	p, ok := plan.Props[id]
	if !ok {
		fmt.Fprintf(os.Stderr, "unknown property %s\n", id)
		return 2
	}
	seed := uint64(1)
	if s := os.Getenv("VERIF_SEED"); s != "" {
		if v, err := strconv.ParseUint(s, 10, 63); err == nil {
			seed = v
		}
	}
	parts := tierParts(p, tier)
	// builds
	flavors := map[string]bool{}
	for _, pt := range parts {
		flavors[pt.Flavor] = true
	}
	hooks := true
	fls := []string{}
	for fl := range flavors {
		fls = append(fls, fl)
	}
	sort.Strings(fls)
	var bwg sync.WaitGroup
	for _, fl := range fls {
		bwg.Add(1)
		go func(fl string) { defer bwg.Done(); build(fl) }(fl)
	}
	bwg.Wait()
	for _, fl := range fls {
		b := build(fl)
		if b.err != "" {
			fmt.Printf("BUILD-FAILURE flavor=%s: /repo does not compile with the harness:\n%s\n", fl, b.err)
			return 2
		}
		if !b.hooks {
			hooks = false
		}
	}
	// jobs
	ncpu := runtime.NumCPU()
	jobs := []childJob{}
	for _, pt := range parts {
		chunk := pt.Chunk
		if chunk <= 0 {
			chunk = (pt.Cases + ncpu - 1) / ncpu
			if chunk < 1 {
				chunk = 1
			}
		}
		for from := 0; from < pt.Cases; from += chunk {
			n := chunk
			if from+n > pt.Cases {
				n = pt.Cases - from
			}
			jobs = append(jobs, childJob{part: pt, from: from, cases: n, idx: len(jobs)})
		}
	}
	tmp := filepath.Join(root, "bin", fmt.Sprintf("run-%s-%d", id, os.Getpid()))
	os.MkdirAll(tmp, 0o755)
	defer os.RemoveAll(tmp)
	os.MkdirAll(filepath.Join(root, "replays"), 0o755)
	if old, _ := filepath.Glob(filepath.Join(root, "replays", id+"-*")); len(old) > 0 {
		for _, f := range old {
			os.Remove(f)
		}
	}

	watchdog := "900"
	if tier == "thorough" {
		watchdog = "5400"
	}
	var mu sync.Mutex
	viols := []viol{}
	nontrivial := map[uint64]bool{}
	evaluations := 0
	inconclusive := 0
	ops := map[string]int{}
	counters := map[string]int{}
	samples := []any{}
	perFlavor := map[string]int{}
	trans := map[string]map[string]map[int]uint64{} // group -> label -> case -> hash
	sem := make(chan struct{}, ncpu)
	var wg sync.WaitGroup
	for _, j := range jobs {
		wg.Add(1)
		sem <- struct{}{}
		go func(j childJob) {
			defer wg.Done()
			defer func() { <-sem }()
			outFile := filepath.Join(tmp, fmt.Sprintf("%d.json", j.idx))
			logFile := filepath.Join(tmp, fmt.Sprintf("%d.log", j.idx))
			raceLog := filepath.Join(tmp, fmt.Sprintf("%d.race", j.idx))
			args := []string{"-s", "QUIT", watchdog, filepath.Join(root, "bin", "drv-"+j.part.Flavor),
				"-prop", id, "-seed", strconv.FormatUint(seed, 10), "-from", strconv.Itoa(j.from), "-cases", strconv.Itoa(j.cases),
				"-tier", tier, "-mode", j.part.Mode, "-flavor", j.part.Flavor, "-out", outFile}
			cmd := exec.Command("timeout", args...)
			cmd.Dir = root
			env := append(os.Environ(), plan.Flavors[j.part.Flavor].Env...)
			env = append(env, j.part.Env...)
			if j.part.Flavor == "race" || j.part.Flavor == "racetiny" {
				env = append(env, "GORACE=halt_on_error=0 log_path="+raceLog)
			}
			cmd.Env = env
			lf, _ := os.Create(logFile)
			cmd.Stdout, cmd.Stderr = lf, lf
			err := cmd.Run()
			lf.Close()
			logb, _ := os.ReadFile(logFile)
			var rep report
			haveRep := false
			if b, e := os.ReadFile(outFile); e == nil && json.Unmarshal(b, &rep) == nil && rep.Done {
				haveRep = true
			}
			mu.Lock()
			defer mu.Unlock()
			if haveRep {
				evaluations += rep.Evaluations
				perFlavor[j.part.Flavor+"/"+j.part.Mode] += rep.Evaluations
				for _, h := range rep.NonTrivial {
					nontrivial[h] = true
				}
				for k, v := range rep.Cov.Ops {
					ops[k] += v
				}
				for k, v := range rep.Cov.N {
					counters[k] += v
				}
				if len(samples) < 3 {
					samples = append(samples, rep.Samples...)
				}
				if !rep.Hooks {
					hooks = false
				}
				if j.part.Compare != "" {
					if trans[j.part.Compare] == nil {
						trans[j.part.Compare] = map[string]map[int]uint64{}
					}
					lab := j.part.Flavor + "/" + j.part.Label
					if trans[j.part.Compare][lab] == nil {
						trans[j.part.Compare][lab] = map[int]uint64{}
					}
					for c, h := range rep.Transcripts {
						trans[j.part.Compare][lab][c] = h
					}
				}
				for _, v := range rep.Violations {
					kind := v.Kind
					if j.part.KnownFindingOnly && !strings.HasPrefix(kind, j.part.Mode+":") {
						// everything a known-finding reproducer reports belongs to that regime, whatever the symptom
						kind = j.part.Mode + ":" + kind
					}
					viols = append(viols, viol{kind, v.Msg, v.Witness, j.part.Flavor, j.part.Mode, j.part.KnownFindingOnly})
				}
			}
			// race reports
			if j.part.Flavor == "race" || j.part.Flavor == "racetiny" {
				matches, _ := filepath.Glob(raceLog + "*")
				for _, m := range matches {
					b, _ := os.ReadFile(m)
					n := bytes.Count(b, []byte("WARNING: DATA RACE"))
					if n > 0 {
						counters["race_reports"] += n
						w := filepath.Join(root, "replays", fmt.Sprintf("%s-race-%d-%d.log", id, seed, j.idx))
						os.WriteFile(w, b, 0o644)
						viols = append(viols, viol{"race", firstRace(string(b)), w, j.part.Flavor, j.part.Mode, j.part.KnownFindingOnly})
					}
				}
			}
			if !haveRep {
				exit := -1
				if ee, ok := err.(*exec.ExitError); ok {
					exit = ee.ExitCode()
				}
				if exit == 124 || exit == 137 || bytes.Contains(logb, []byte("SIGQUIT: quit")) {
					inconclusive++
					fmt.Printf("INCONCLUSIVE property=%s flavor=%s cases %d..%d: watchdog fired\n", id, j.part.Flavor, j.from, j.from+j.cases-1)
					return
				}
				kind, excerpt := classifyFatal(string(logb))
				if j.part.KnownFindingOnly {
					kind = j.part.Mode + ":" + kind
				}
				c := -1
				if b, e := os.ReadFile(outFile + ".progress"); e == nil {
					c, _ = strconv.Atoi(strings.TrimSpace(string(b)))
				}
				w := filepath.Join(root, "replays", fmt.Sprintf("%s-%s-%s-%d-%d.fatal.json", id, j.part.Flavor, orDash(j.part.Mode), seed, c))
				wb, _ := json.MarshalIndent(map[string]any{"prop": id, "flavor": j.part.Flavor, "mode": j.part.Mode, "tier": tier, "seed": seed, "case": c,
					"violation": []map[string]any{{"kind": kind, "msg": excerpt}}, "env": j.part.Env}, "", " ")
				os.WriteFile(w, wb, 0o644)
				viols = append(viols, viol{kind, fmt.Sprintf("child died (exit %d) in case %d: %s", exit, c, excerpt), w, j.part.Flavor, j.part.Mode, j.part.KnownFindingOnly})
			}
		}(j)
	}
	wg.Wait()

	// cross-process transcript comparison
	for group, labs := range trans {
		names := []string{}
		for l := range labs {
			names = append(names, l)
		}
		sort.Strings(names)
		for i := 1; i < len(names); i++ {
			a, b := labs[names[0]], labs[names[i]]
			for c, h := range a {
				if hb, ok := b[c]; ok {
					counters["cross_process_compares"]++
					if hb != h {
						w := filepath.Join(root, "replays", fmt.Sprintf("%s-xproc-%s-%d-%d.json", id, group, seed, c))
						wb, _ := json.MarshalIndent(map[string]any{"prop": id, "flavor": strings.Split(names[0], "/")[0], "mode": "", "tier": tier, "seed": seed, "case": c,
							"violation": []map[string]any{{"kind": "determinism.process", "msg": fmt.Sprintf("case %d: transcript %x in %s, %x in %s", c, h, names[0], hb, names[i])}}}, "", " ")
						os.WriteFile(w, wb, 0o644)
						viols = append(viols, viol{"determinism.process", fmt.Sprintf("case %d of group %s: transcript %x in process %s but %x in process %s", c, group, h, names[0], hb, names[i]), w, names[i], "", false})
					}
				}
			}
		}
	}

	// verdict
	findings := loadFindings()
	knownHit := map[string]int{}
	realViol := []viol{}
	for _, v := range viols {
		matched := false
		for _, f := range findings {
			if f.prop == id && strings.HasPrefix(v.kind, f.key) {
				knownHit[f.key+" "+f.text]++
				matched = true
				break
			}
		}
		if !matched {
			realViol = append(realViol, v)
		}
	}
	keys := []string{}
	for k := range knownHit {
		keys = append(keys, k)
	}
	sort.Strings(keys)
	for _, k := range keys {
		parts := strings.SplitN(k, " ", 2)
		fmt.Printf("KNOWN-FINDING: property=%s %s (key %s, observed %d times in this run)\n", id, parts[1], parts[0], knownHit[k])
	}
	seenKind := map[string]bool{}
	for _, v := range realViol {
		if seenKind[v.kind] {
			continue
		}
		seenKind[v.kind] = true
		fmt.Printf("VIOLATION property=%s replay=%s\n  flavor=%s kind=%s\n  %s\n", id, v.witness, v.flavor, v.kind, strings.ReplaceAll(v.msg, "\n", "\n  "))
	}

	// evidence
	shown := samples
	if len(shown) > 3 {
		shown = shown[:3]
	}
	if len(shown) == 0 {
		shown = []any{"no sample reported"}
	}
	cov := map[string]any{
		"evaluations":                evaluations,
		"distinct_nontrivial":        len(nontrivial),
		"rule":                       p.Rule,
		"samples":                    shown,
		"ops_by_kind":                ops,
		"observed":                   counters,
		"evaluations_by_flavor_mode": perFlavor,
		"inconclusive":               inconclusive,
		"hooks":                      map[bool]string{true: "enabled", false: "unavailable"}[hooks],
		"known_findings_hit":         knownHit,
	}
	if p.EscapeReport != "" {
		cmd := exec.Command("go", "build", "-tags", "verif", "-gcflags=-m", "-o", os.DevNull, "./h")
		cmd.Dir = filepath.Join(root, "harness")
		cmd.Env = goEnv()
		out, _ := cmd.CombinedOutput()
		lines := []string{}
		for _, l := range strings.Split(string(out), "\n") {
			if strings.Contains(l, p.EscapeReport) && (strings.Contains(l, "escape") || strings.Contains(l, "moved to heap")) && !strings.Contains(l, "leaking") {
				lines = append(lines, strings.TrimSpace(l))
			}
		}
		cov["escape_analysis_of_call_site_shapes"] = lines
	}
	ev := map[string]any{
		"property_id": id,
		"tier":        tier,
		"seed":        seed,
		"level":       p.Level,
		"coverage":    cov,
		"assumptions": []string{"the harness's reference model and filter evaluator are correct", "go toolchain, runtime and sanitizers behave as documented"},
		"wall_s":      time.Since(start).Seconds(),
		"violations":  len(realViol),
	}
	os.MkdirAll(filepath.Join(root, "evidence"), 0o755)
	eb, _ := json.MarshalIndent(ev, "", " ")
	os.WriteFile(filepath.Join(root, "evidence", id+".json"), eb, 0o644)

	fmt.Printf("property=%s tier=%s seed=%d evaluations=%d distinct_nontrivial=%d violations=%d known=%d inconclusive=%d hooks=%v wall=%.1fs\n",
		id, tier, seed, evaluations, len(nontrivial), len(realViol), len(knownHit), inconclusive, hooks, time.Since(start).Seconds())
	if len(realViol) > 0 {
		return 1
	}
	if p.RequirePrefix != "" && inconclusive == 0 && hooks {
		n := 0
		for k, v := range counters {
			if strings.HasPrefix(k, p.RequirePrefix) && v > 0 {
				n++
			}
		}
		if n < p.RequireDistinct {
			fmt.Printf("MACHINERY-FAILURE property=%s: only %d of %d table rows (%s*) were exercised\n", id, n, p.RequireDistinct, p.RequirePrefix)
			return 2
		}
	}
	if inconclusive == 0 && (evaluations == 0 || len(nontrivial) < p.MinNonTrivial) {
		fmt.Printf("MACHINERY-FAILURE property=%s: monitors observed too little (evaluations=%d, distinct_nontrivial=%d, floor %d)\n", id, evaluations, len(nontrivial), p.MinNonTrivial)
		return 2
	}
	return 0
}

func firstRace(s string) string {
	i := strings.Index(s, "WARNING: DATA RACE")
	if i < 0 {
		return ""
	}
	end := i + 1500
	if end > len(s) {
		end = len(s)
	}
	return s[i:end]
}

func orDash(s string) string {
	if s == "" {
		return "-"
	}
	return s
}

func replay(path string) int {
	b, err := os.ReadFile(path)
	if err != nil {
		fmt.Fprintln(os.Stderr, err)
		return 2
	}
	var w struct {
		Prop, Flavor, Mode, Tier string
		Seed                     uint64
		Case                     int
		Env                      []string
	}
	if strings.HasSuffix(path, ".log") {
		fmt.Printf("%s is a race-detector log; re-run the check to reproduce:\n%s\n", path, firstRace(string(b)))
		return 1
	}
	if err := json.Unmarshal(b, &w); err != nil {
		fmt.Fprintln(os.Stderr, err)
		return 2
	}
	if bi := build(w.Flavor); bi.err != "" {
		fmt.Println(bi.err)
		return 2
	}
	if strings.HasSuffix(path, ".fatal.json") {
		cmd := exec.Command(filepath.Join(root, "bin", "drv-"+w.Flavor), "-prop", w.Prop, "-seed", strconv.FormatUint(w.Seed, 10),
			"-from", strconv.Itoa(w.Case), "-cases", "1", "-tier", w.Tier, "-mode", w.Mode, "-flavor", w.Flavor)
		cmd.Env = append(append(os.Environ(), plan.Flavors[w.Flavor].Env...), w.Env...)
		out, err := cmd.CombinedOutput()
		if err != nil {
			kind, ex := classifyFatal(string(out))
			fmt.Printf("replay: property=%s case=%d died again: %s\n%s\n", w.Prop, w.Case, kind, ex)
			return 1
		}
		fmt.Printf("replay of %s: case %d ran to completion on this tree\n", path, w.Case)
		return 0
	}
	cmd := exec.Command(filepath.Join(root, "bin", "drv-"+w.Flavor), "-replay", path, "-prop", w.Prop, "-flavor", w.Flavor)
	cmd.Env = append(os.Environ(), plan.Flavors[w.Flavor].Env...)
	cmd.Stdout, cmd.Stderr = os.Stdout, os.Stderr
	if err := cmd.Run(); err != nil {
		if ee, ok := err.(*exec.ExitError); ok {
			return ee.ExitCode()
		}
		return 2
	}
	return 0
}

func main() {
	if r := os.Getenv("VERIF_ROOT"); r != "" {
		root = r
	}
	if len(os.Args) < 2 {
		fmt.Fprintln(os.Stderr, "usage: verif build [flavor...] | check <id> [--tier quick|thorough] | replay <file>")
		os.Exit(2)
	}
	switch os.Args[1] {
	case "build":
		fls := os.Args[2:]
		if len(fls) == 0 {
			for f := range plan.Flavors {
				fls = append(fls, f)
			}
		}
		sort.Strings(fls)
		rc := 0
		for _, f := range fls {
			t := time.Now()
			if b := build(f); b.err != "" {
				fmt.Printf("flavor %s: FAILED\n%s\n", f, b.err)
				rc = 2
			} else {
				fmt.Printf("flavor %s: ok (hooks=%v, %.1fs)\n", f, b.hooks, time.Since(t).Seconds())
			}
		}
		os.Exit(rc)
	case "check":
		if len(os.Args) < 3 {
			os.Exit(2)
		}
		tier := os.Getenv("VERIF_TIER")
		for i := 3; i < len(os.Args); i++ {
			if os.Args[i] == "--tier" && i+1 < len(os.Args) {
				tier = os.Args[i+1]
			}
		}
		if tier != "thorough" {
			tier = "quick"
		}
		os.Exit(check(os.Args[2], tier))
	case "replay":
		if len(os.Args) < 3 {
			os.Exit(2)
		}
		os.Exit(replay(os.Args[2]))
	}
	os.Exit(2)
}
