// Package plan holds what the runner and the child binary must agree on:
// which build flavors and how many cases each property runs per tier.
// It must not import arche, so the runner builds even when /repo does not.
package plan

// Flavor is a build of the child binary.
type Flavor struct {
	Name   string
	Tags   string   // build tags (hooks tag first)
	Flags  []string // extra go build flags
	Env    []string // extra environment for the child
	GoTool string   // "go" or "go1.26.8"
}

// Flavors lists the known build flavors.
var Flavors = map[string]Flavor{
	"std":  {Name: "std", Tags: "verif"},
	"tiny": {Name: "tiny", Tags: "verif,tiny"},
	"dbg":  {Name: "dbg", Tags: "verif,debug"},
	"ptr":  {Name: "ptr", Tags: "verif", Flags: []string{"-gcflags=all=-d=checkptr"}},
	"asan": {Name: "asan", Tags: "verif", Flags: []string{"-asan"}},
	"race": {Name: "race", Tags: "verif", Flags: []string{"-race"}},
	// the race detector on the 64-bit-mask build (build-tag specific files are different code)
	"racetiny": {Name: "racetiny", Tags: "verif,tiny", Flags: []string{"-race"}},
	"go126":    {Name: "go126", Tags: "verif", GoTool: "go1.26.8"},
}

// Part is a share of a check: a number of cases on a flavor, optionally in a named mode.
type Part struct {
	Flavor           string
	Mode             string // property-specific sub-workload ("" = default)
	Cases            int
	Chunk            int // cases per child (0: spread over the cores)
	Env              []string
	KnownFindingOnly bool   // outcome never decides the exit code (reproducer of a recorded finding)
	Compare          string // parts with the same non-empty group must produce identical per-case transcripts
	Label            string // distinguishes parts of a compare group
}

// Prop describes one property's check.
type Prop struct {
	ID              string
	Level           string
	Rule            string
	Quick           []Part
	Thorough        []Part
	MinNonTrivial   int    // floor for distinct_nontrivial in quick tier (machinery sanity)
	EscapeReport    string // file whose escape-analysis lines (-gcflags=-m) are recorded in the evidence
	RequirePrefix   string // counters with this prefix ...
	RequireDistinct int    // ... must show at least this many distinct keys (every table row exercised)
}

// Props is filled in by props.go.
var Props = map[string]*Prop{}

// Order lists property IDs in order.
var Order []string

func add(p *Prop) {
	Props[p.ID] = p
	Order = append(Order, p.ID)
}
