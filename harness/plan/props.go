package plan

func init() {
	add(&Prop{ID: "C01", Level: "exploration",
		Rule:          "seeded random histories (160 ops) over all move paths with hostile configurations (capacity increment 1-3, IDs on mask-word/layout-chunk boundaries, late registrations); after every op the world is compared with the reference model through World.* and a full query sweep, and hooked invariants I1-I7 are walked. Non-trivial = distinct op-list hash whose history had >=1 swap-remove of a non-last row, >=1 table growth and >=1 move of an entity carrying >=2 valued components (all measured).",
		Quick:         []Part{{Flavor: "std", Cases: 1200}, {Flavor: "tiny", Cases: 400}, {Flavor: "ptr", Cases: 300}},
		Thorough:      []Part{{Flavor: "std", Cases: 60000}, {Flavor: "tiny", Cases: 12000}, {Flavor: "ptr", Cases: 8000}, {Flavor: "asan", Cases: 3000}},
		MinNonTrivial: 200})
	add(&Prop{ID: "C02", Level: "exploration",
		Rule:          "churn histories (220 ops; single/batch creation up to 40, removal, removal via filters, Reset) with a handle ledger: after every op every handle issued in the epoch is asked Alive, ids of alive entities are unique, each new handle is fresh, Used = created - removed. Non-trivial = distinct history in which a batch creation consumed both recycled and fresh ids, or an id was recycled >=3 times.",
		Quick:         []Part{{Flavor: "std", Cases: 1200}, {Flavor: "tiny", Cases: 300}},
		Thorough:      []Part{{Flavor: "std", Cases: 60000}, {Flavor: "tiny", Cases: 10000}, {Flavor: "ptr", Cases: 5000}},
		MinNonTrivial: 200})
	add(&Prop{ID: "C03", Level: "exploration",
		Rule:          "random histories with frequent query checks: for harness-owned filter expressions (mask, without, exclusive, relation, And/Or/XOr/Not/Any/NoneOf/AnyNot nesting <=3; registered or not) four traversals of fresh queries are compared (Next; Count+EntityAt; Step/Next mix; partial+Close) against the model's own evaluator, and every position against World.*. Returned queries of Q batch calls are checked the same way. Non-trivial = distinct history with >=1 traversal crossing >=3 tables.",
		Quick:         []Part{{Flavor: "std", Cases: 1500}, {Flavor: "tiny", Cases: 400}, {Flavor: "dbg", Cases: 300}},
		Thorough:      []Part{{Flavor: "std", Cases: 60000}, {Flavor: "tiny", Cases: 12000}, {Flavor: "dbg", Cases: 12000}, {Flavor: "ptr", Cases: 5000}},
		MinNonTrivial: 200})
	add(&Prop{ID: "C05", Level: "exploration",
		Rule:          "relation-heavy histories; after every op Relations.Get/Query.Relation of every entity and a relation-filter query for every target ever used (alive, dead, zero) x every relation component are compared with the model. Non-trivial = distinct history with >=1 target retained across a non-relation add/remove and >=1 relation removal/swap resetting a non-zero target. Dead/recycled targets through every target-taking entry point are injected by the C10 fault table (classes target.*), which this check also runs.",
		Quick:         []Part{{Flavor: "std", Cases: 1500}, {Flavor: "tiny", Cases: 300}},
		Thorough:      []Part{{Flavor: "std", Cases: 60000}, {Flavor: "tiny", Cases: 10000}, {Flavor: "ptr", Cases: 5000}},
		MinNonTrivial: 200})
	add(&Prop{ID: "C06", Level: "exploration",
		Rule:          "'necro' histories: targets die while their tables are empty/non-empty/emptied later, retire->reuse cycles, self-targets, parent and children removed in one batch; model + hooked invariants (retired tables empty and zeroed, free lists sane) + per-target relation queries after every op. Non-trivial = distinct history with >=1 table retirement and >=1 reuse of a retired table (measured through the hook).",
		Quick:         []Part{{Flavor: "std", Cases: 1500}, {Flavor: "ptr", Cases: 300}},
		Thorough:      []Part{{Flavor: "std", Cases: 60000}, {Flavor: "tiny", Cases: 8000}, {Flavor: "ptr", Cases: 8000}},
		MinNonTrivial: 200})
	add(&Prop{ID: "C07", Level: "exploration",
		Rule:          "histories with up to 4 live registrations (all filter kinds incl. relation filters on alive/dead/zero targets), registered before or after matching tables exist, across target deaths, retire/reuse and several Resets; after every op every registered filter is iterated and compared as multiset with its original filter and with the model; hooked invariant I6 (list = brute force, no nil/duplicate/retired, removal index consistent); every second batch op is also run on a prefix-replayed twin world through the other form of the filter (cached <-> original) and the worlds, counts and Q-query contents are compared. Non-trivial = distinct history with >=1 batch op through a cached filter, >=1 table retirement, >=20 cached/original comparisons and >=1 twin comparison.",
		Quick:         []Part{{Flavor: "std", Cases: 1500}, {Flavor: "tiny", Cases: 300}},
		Thorough:      []Part{{Flavor: "std", Cases: 60000}, {Flavor: "tiny", Cases: 10000}, {Flavor: "ptr", Cases: 5000}},
		MinNonTrivial: 200})
	add(&Prop{ID: "C11", Level: "exploration",
		Rule:          "full-mix histories with a listener subscribed to everything; every notification is recorded with what the world reports at delivery time and checked per op against the model's before/after diff of every entity: exactly one event per changed entity, none for unchanged ones, exact Added/Removed/IDs/relations/OldTarget/type bits, delivery timing (after the change and unlocked; removal before and locked; batch after the batch; Q variants when the query ends). Non-trivial = distinct history with >=30 checked events including >=1 event that changes a relation target together with other bits.",
		Quick:         []Part{{Flavor: "std", Cases: 2000}, {Flavor: "tiny", Cases: 400}},
		Thorough:      []Part{{Flavor: "std", Cases: 80000}, {Flavor: "tiny", Cases: 10000}},
		MinNonTrivial: 200})
	add(&Prop{ID: "C04", Level: "exploration",
		Rule:          "three modes. pairs (exhaustive, exhaustive=true for this part): every ordered pair of IDs (a,b) x 7 operand pairs built from {a},{b},{a,b} and their complements, each checked for All/Get/Set/Reset/Not/And/Or/Xor/Contains/ContainsAny/IsZero/TotalBitsSet/Matches/Without/Exclusive against a [256]bool set model (one case = one ordered pair; all 65,536 resp. 4,096 pairs are run in every tier). random: mask pairs with densities {sparse, one word full, half, dense}. filters: random filter expressions (depth <=4, all logic kinds) x 200 component subsets, harness evaluator vs Matches. Non-trivial: pairs = (a,b) in different 64-bit words (tiny: a != b), random = operands spanning >1 word; filters = distinct expression that matched some but not all subsets.",
		Quick:         []Part{{Flavor: "std", Mode: "pairs", Cases: 65536}, {Flavor: "tiny", Mode: "pairs", Cases: 4096}, {Flavor: "std", Mode: "random", Cases: 20000}, {Flavor: "tiny", Mode: "random", Cases: 5000}, {Flavor: "std", Mode: "filters", Cases: 3000}, {Flavor: "tiny", Mode: "filters", Cases: 1000}},
		Thorough:      []Part{{Flavor: "std", Mode: "pairs", Cases: 65536}, {Flavor: "tiny", Mode: "pairs", Cases: 4096}, {Flavor: "std", Mode: "random", Cases: 1000000}, {Flavor: "tiny", Mode: "random", Cases: 200000}, {Flavor: "std", Mode: "filters", Cases: 200000}, {Flavor: "tiny", Mode: "filters", Cases: 50000}},
		MinNonTrivial: 1000})
	add(&Prop{ID: "C08", Level: "exploration",
		Rule:          "batch-heavy histories; before every batch call a twin world is rebuilt by replaying the op-log prefix (transcripts must agree), then world A gets the batch call and twin B gets the documented single-entity call for each entity of B's pre-call query; compared: entity -> (components, bytes, target) maps through the public API, returned count vs. matched entities, Q-query contents vs. affected entities (SetRelation: target changed), handles of NewBatch(n) vs. n x New in order. The model (batch = loop of single-entity semantics) is checked too. Non-trivial = distinct history with >=1 batch over >=2 non-empty source tables and >=3 non-empty twin comparisons.",
		Quick:         []Part{{Flavor: "std", Cases: 1200}, {Flavor: "tiny", Cases: 200}, {Flavor: "ptr", Cases: 200}},
		Thorough:      []Part{{Flavor: "std", Cases: 50000}, {Flavor: "tiny", Cases: 8000}, {Flavor: "ptr", Cases: 5000}},
		MinNonTrivial: 200})
	add(&Prop{ID: "C10", Level: "fault_enumeration",
		Rule:          "fault table: every illegal-argument class of the property x every operation it applies to (dead and recycled handles, present/absent components, duplicate IDs, second relation, relation calls on missing/non-relation components incl. component ID 0, dead or recycled relation targets through every target-taking entry point, non-positive batch counts, out-of-range query indices on plain/cached/batch-result queries, duplicate/missing resources, double (un)registration, type limit + 1 in both registries). Rows are injected round-robin at PRNG-chosen states of random histories, singly and in bursts of 3-5; each call must panic; for single-entity rows a full public snapshot (DumpEntities, every entity's mask/Ids/bytes/target, lock state, resources by pointer, registry, registered-filter results in order, Stats) plus the hooked core digest and an invariant walk must be identical before and after; the history then continues under the model. Every row must be exercised in every run (enforced). Non-trivial = distinct history with >=5 injected faults, at least one on a world with >=3 tables and a non-empty free list.",
		Quick:         []Part{{Flavor: "std", Cases: 1500}, {Flavor: "tiny", Cases: 300}, {Flavor: "std", Mode: "limit", Cases: 60}, {Flavor: "tiny", Mode: "limit", Cases: 60}},
		Thorough:      []Part{{Flavor: "std", Cases: 60000}, {Flavor: "tiny", Cases: 10000}, {Flavor: "ptr", Cases: 5000}, {Flavor: "std", Mode: "limit", Cases: 1000}, {Flavor: "tiny", Mode: "limit", Cases: 1000}},
		MinNonTrivial: 200, RequirePrefix: "fault:", RequireDistinct: 92})
}
