#!/bin/bash
# usage: remeta.sh <seeded name> <prop>...   re-runs the given checks against a stored seeded change and merges the result into its meta.json
set -u
NAME="$1"; shift
D=/verif/seeded/$NAME
res=$(/verif/mutcheck.sh "$D/patch.diff" "$@" 2>&1)
echo "$res" | grep "^== C\|kind="
python3 - "$D" "$res" <<'PY'
import sys, json, re
d, res = sys.argv[1:3]
meta = json.load(open(d + "/meta.json"))
first = meta.setdefault("first_run", {"checks_run": meta.get("checks_run"), "caught": meta.get("caught")})
checks = dict(meta.get("checks_run") or {})
for m in re.finditer(r'^== (C\d+) rc=(\d+) (.*)$', res, re.M):
    checks[m.group(1)] = {"exit_code": int(m.group(2)), "summary": m.group(3), "after_strengthening": True}
meta["checks_run"] = checks
meta["violation_kinds_seen"] = sorted(set(meta.get("violation_kinds_seen", [])) | set(re.findall(r'kind=(\S+)', res)))
meta["caught"] = any(v["exit_code"] == 1 for v in checks.values())
json.dump(meta, open(d + "/meta.json", "w"), indent=1)
print("updated", d, "caught =", meta["caught"])
PY
